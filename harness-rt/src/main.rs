//! hrt <programs.ndjson>: runs timing-independent client programs on a REAL runtime (the one selected by the
//! cargo feature: tokio / async-std / smol; no scheduler shim) and prints one outcome record per program:
//! every operation's result and every actor's callback / handled-message sequence.  bin/check C18 compares the
//! outcome with the set of outcomes the TLA+ specification allows for the same program, and across runtimes.
use hannibal::{Addr, OwningAddr, RestartableActor, Service, prelude::*};
use serde::Deserialize;
use serde_json::{Value, json};
use std::{
    collections::{BTreeMap, HashMap},
    sync::{
        Mutex,
        atomic::{AtomicU64, Ordering},
    },
};

static LOG: Mutex<Vec<(u64, String)>> = Mutex::new(Vec::new());
static NINST: AtomicU64 = AtomicU64::new(0);
fn log(inst: u64, what: String) {
    LOG.lock().unwrap().push((inst, what));
}

pub struct H<const K: usize> {
    inst: u64,
    st: Vec<(String, i64)>,
}
impl<const K: usize> H<K> {
    fn new() -> Self {
        H { inst: NINST.fetch_add(1, Ordering::SeqCst) + 1, st: vec![] }
    }
}
impl<const K: usize> Default for H<K> {
    fn default() -> Self {
        Self::new()
    }
}
impl<const K: usize> Actor for H<K> {
    async fn started(&mut self, _: &mut Context<Self>) -> DynResult<()> {
        log(self.inst, "sb".into());
        log(self.inst, "se".into());
        Ok(())
    }
    async fn stopped(&mut self, _: &mut Context<Self>) {
        log(self.inst, "pb".into());
        log(self.inst, "pe".into());
    }
}
impl<const K: usize> RestartableActor for H<K> {}
impl<const K: usize> Service for H<K> {}
pub struct SMsg(String, i64);
impl Message for SMsg {
    type Response = ();
}
pub struct CMsg(String, i64);
impl Message for CMsg {
    type Response = (usize, u64);
}
impl<const K: usize> H<K> {
    fn work(&mut self, c: String, n: i64) -> (usize, u64) {
        log(self.inst, format!("h:{c}:{n}"));
        self.st.push((c, n));
        (self.st.len(), self.inst)
    }
}
impl<const K: usize> Handler<SMsg> for H<K> {
    async fn handle(&mut self, _: &mut Context<Self>, m: SMsg) {
        self.work(m.0, m.1);
    }
}
impl<const K: usize> Handler<CMsg> for H<K> {
    async fn handle(&mut self, _: &mut Context<Self>, m: CMsg) -> (usize, u64) {
        self.work(m.0, m.1)
    }
}
impl<const K: usize> StreamHandler<i64> for H<K> {
    async fn handle(&mut self, _: &mut Context<Self>, item: i64) {
        self.work("s".into(), item);
    }
    async fn finished(&mut self, _: &mut Context<Self>) {
        log(self.inst, "fb".into());
        log(self.inst, "fe".into());
    }
}

#[derive(Deserialize, Clone)]
struct Op {
    op: String,
    #[serde(default)]
    h: String,
    #[serde(default)]
    nh: String,
    #[serde(default)]
    nh2: String,
    #[serde(default)]
    entry: String,
    #[serde(default)]
    items: i64,
    #[serde(default)]
    ended: bool,
}
#[derive(Deserialize)]
struct Program {
    id: String,
    ops: Vec<Op>,
}

enum Hd {
    Addr(Addr<H<0>>),
    Own(OwningAddr<H<0>>),
    Svc(Addr<H<1>>),
    Weak(hannibal::WeakAddr<H<0>>),
}

fn stream(items: i64, ended: bool) -> impl futures::Stream<Item = i64> + Unpin + Send + 'static {
    use futures::StreamExt;
    let s = futures::stream::iter(1..=items);
    if ended { s.boxed() } else { s.chain(futures::stream::pending()).boxed() }
}

fn oke<T>(r: &Result<T, hannibal::error::ActorError>) -> &'static str {
    if r.is_ok() { "ok" } else { "err" }
}

async fn run(p: &Program) -> Value {
    use hannibal::spawner::{DefaultSpawnable, Spawnable, StreamSpawnable};
    let mut hs: HashMap<String, Hd> = HashMap::new();
    let mut out: Vec<Value> = vec![];
    for (i, o) in p.ops.iter().enumerate() {
        let n = i as i64 + 1;
        let c = "main".to_string();
        let res: Value = match o.op.as_str() {
            "spawn" => {
                let is_default = o.entry.starts_with("spawn_default");
                // (the Default entry points construct the value themselves)
                let a = if is_default { None } else { Some(H::<0>::new()) };
                let a = move || a.expect("actor value");
                let hd = match o.entry.as_str() {
                    "spawn" => Hd::Addr(a().spawn()),
                    "spawn_owning" => Hd::Own(a().spawn_owning()),
                    "spawn_default" => Hd::Addr(<H<0> as DefaultSpawnable<_>>::spawn_default().unwrap()),
                    "spawn_default_owning" => Hd::Own(<H<0> as DefaultSpawnable<_>>::spawn_owning().unwrap()),
                    "spawn_on_stream" => Hd::Addr(a().spawn_on_stream(stream(o.items, o.ended)).unwrap()),
                    "spawn_owning_on_stream" => Hd::Own(a().spawn_owning_on_stream(stream(o.items, o.ended)).unwrap()),
                    "builder_spawn" => Hd::Addr(hannibal::build(a()).bounded(2).spawn()),
                    "builder_spawn_owning" => Hd::Own(hannibal::build(a()).unbounded().recreate_from_default().spawn_owning()),
                    "builder_stream_spawn" => Hd::Addr(hannibal::build(a()).on_stream(stream(o.items, o.ended)).spawn()),
                    "builder_stream_spawn_owning" => Hd::Own(hannibal::build(a()).bounded_on_stream(2, stream(o.items, o.ended)).spawn_owning()),
                    e => panic!("entry {e}"),
                };
                hs.insert(o.nh.clone(), hd);
                json!({"res": "ok"})
            }
            "spawn_pre" => json!({"res": "ok"}),
            "register_builder" => {
                // builder terminal `.register()`: spawn + register in one call
                let r = hannibal::build(H::<1>::new()).unbounded().register().await;
                match r {
                    Ok((me, old)) => {
                        hs.insert(o.nh.clone(), Hd::Svc(me));
                        if let Some(old) = old {
                            hs.insert(o.nh2.clone(), Hd::Svc(old));
                            json!({"res": "some"})
                        } else {
                            json!({"res": "ok"})
                        }
                    }
                    Err(_) => json!({"res": "err"}),
                }
            }
            "spawn_svc" => {
                hs.insert(o.nh.clone(), Hd::Svc(H::<1>::new().spawn()));
                json!({"res": "ok"})
            }
            "from_registry" => {
                let a = H::<1>::from_registry().await;
                hs.insert(o.nh.clone(), Hd::Svc(a));
                json!({"res": "ok"})
            }
            "setup" => {
                let _ = H::<1>::setup().await;
                json!({"res": "ok"})
            }
            "register" => match hs.remove(&o.h) {
                Some(Hd::Svc(a)) => match a.register().await {
                    Ok((me, old)) => {
                        hs.insert(o.nh.clone(), Hd::Svc(me));
                        if let Some(old) = old {
                            hs.insert(o.nh2.clone(), Hd::Svc(old));
                            json!({"res": "some"})
                        } else {
                            json!({"res": "ok"})
                        }
                    }
                    Err(_) => json!({"res": "err"}),
                },
                _ => panic!("register on wrong handle"),
            },
            "unregister" => match Addr::<H<1>>::unregister().await {
                Some(a) => {
                    hs.insert(o.nh.clone(), Hd::Svc(a));
                    json!({"res": "some"})
                }
                None => json!({"res": "none"}),
            },
            "send" => {
                let r = match hs.get(&o.h) {
                    Some(Hd::Addr(a)) => a.send(SMsg(c, n)).await,
                    Some(Hd::Own(a)) => a.send(SMsg(c, n)).await,
                    Some(Hd::Svc(a)) => a.send(SMsg(c, n)).await,
                    _ => panic!("send on wrong handle"),
                };
                json!({"res": oke(&r)})
            }
            "call_sync" => {
                // a synchronous facade: the calling thread blocks until the actor has answered - the actor (spawned
                // earlier) runs on its own, whatever the caller does
                let r = match hs.get(&o.h) {
                    Some(Hd::Addr(a)) => futures::executor::block_on(a.call(CMsg(c, n))),
                    Some(Hd::Own(a)) => futures::executor::block_on(a.call(CMsg(c, n))),
                    Some(Hd::Svc(a)) => futures::executor::block_on(a.call(CMsg(c, n))),
                    _ => panic!("call_sync on wrong handle"),
                };
                match r {
                    Ok((pos, inst)) => json!({"res": "ok", "pos": pos, "inst": inst}),
                    Err(_) => json!({"res": "err"}),
                }
            }
            "call" => {
                let r = match hs.get(&o.h) {
                    Some(Hd::Addr(a)) => a.call(CMsg(c, n)).await,
                    Some(Hd::Own(a)) => a.call(CMsg(c, n)).await,
                    Some(Hd::Svc(a)) => a.call(CMsg(c, n)).await,
                    _ => panic!("call on wrong handle"),
                };
                match r {
                    Ok((pos, inst)) => json!({"res": "ok", "pos": pos, "inst": inst}),
                    Err(_) => json!({"res": "err"}),
                }
            }
            "ping" => {
                let r = match hs.get(&o.h) {
                    Some(Hd::Addr(a)) => a.ping().await,
                    Some(Hd::Own(a)) => a.ping().await,
                    Some(Hd::Svc(a)) => a.ping().await,
                    _ => panic!("ping on wrong handle"),
                };
                json!({"res": oke(&r)})
            }
            "stop" => {
                let r = match hs.get_mut(&o.h) {
                    Some(Hd::Addr(a)) => a.stop(),
                    Some(Hd::Svc(a)) => a.stop(),
                    _ => panic!("stop on wrong handle"),
                };
                json!({"res": oke(&r)})
            }
            "halt" | "await" => {
                let r = match hs.remove(&o.h) {
                    Some(Hd::Addr(a)) => if o.op == "halt" { a.halt().await } else { a.await },
                    Some(Hd::Svc(a)) => if o.op == "halt" { a.halt().await } else { a.await },
                    _ => panic!("await on wrong handle"),
                };
                json!({"res": oke(&r)})
            }
            "stopped" => {
                let b = match hs.get(&o.h) {
                    Some(Hd::Addr(a)) => a.stopped(),
                    Some(Hd::Svc(a)) => a.stopped(),
                    Some(Hd::Weak(a)) => a.stopped(),
                    _ => panic!("stopped on wrong handle"),
                };
                json!({"res": if b {"true"} else {"false"}})
            }
            "to_addr" => {
                let a = match hs.get(&o.h) {
                    Some(Hd::Own(a)) => a.to_addr(),
                    _ => panic!("to_addr on wrong handle"),
                };
                hs.insert(o.nh.clone(), Hd::Addr(a));
                json!({"res": "ok"})
            }
            "clone" => {
                let a = match hs.get(&o.h) {
                    Some(Hd::Addr(a)) => Hd::Addr(a.clone()),
                    Some(Hd::Svc(a)) => Hd::Svc(a.clone()),
                    _ => panic!("clone on wrong handle"),
                };
                hs.insert(o.nh.clone(), a);
                json!({"res": "ok"})
            }
            "downgrade" => {
                let a = match hs.get(&o.h) {
                    Some(Hd::Addr(a)) => Hd::Weak(a.downgrade()),
                    _ => panic!("downgrade on wrong handle"),
                };
                hs.insert(o.nh.clone(), a);
                json!({"res": "ok"})
            }
            "detach" => {
                let a = match hs.remove(&o.h) {
                    Some(Hd::Own(a)) => a.detach(),
                    _ => panic!("detach on wrong handle"),
                };
                hs.insert(o.nh.clone(), Hd::Addr(a));
                json!({"res": "ok"})
            }
            "drop" => {
                hs.remove(&o.h);
                json!({"res": "ok"})
            }
            "join" | "join_dd" => {
                let r = match hs.get_mut(&o.h) {
                    Some(Hd::Own(a)) => {
                        if o.op == "join_dd" {
                            // a join future that is made and dropped without ever being polled takes nothing with it
                            drop(a.join());
                        }
                        a.join().await
                    }
                    _ => panic!("join on wrong handle"),
                };
                match r {
                    Some(a) => json!({"res": "some", "pos": a.st.len(), "inst": a.inst}),
                    None => json!({"res": "none"}),
                }
            }
            "consume_sync" => {
                let r = match hs.remove(&o.h) {
                    Some(Hd::Own(a)) => a.consume_sync(),
                    _ => panic!("consume_sync on wrong handle"),
                };
                match r {
                    Ok(f) => match f.await {
                        Some(a) => json!({"res": "some", "pos": a.st.len(), "inst": a.inst}),
                        None => json!({"res": "none"}),
                    },
                    Err(_) => json!({"res": "err"}),
                }
            }
            "consume" => {
                let r = match hs.remove(&o.h) {
                    Some(Hd::Own(a)) => a.consume().await,
                    _ => panic!("consume on wrong handle"),
                };
                match r {
                    Ok(a) => json!({"res": "some", "pos": a.st.len(), "inst": a.inst}),
                    Err(_) => json!({"res": "err"}),
                }
            }
            other => panic!("op {other}"),
        };
        out.push(res);
    }
    drop(hs);
    // per-instance callback / handler sequences
    let mut per: BTreeMap<u64, Vec<String>> = BTreeMap::new();
    for (i, w) in LOG.lock().unwrap().iter() {
        per.entry(*i).or_default().push(w.clone());
    }
    json!({"id": p.id, "results": out, "actors": per})
}

fn main() {
    let path = std::env::args().nth(1).expect("usage: hrt <programs.ndjson>");
    let text = std::fs::read_to_string(path).expect("read programs");
    for line in text.lines().filter(|l| !l.trim().is_empty()) {
        let p: Program = serde_json::from_str(line).expect("program json");
        LOG.lock().unwrap().clear();
        NINST.store(0, Ordering::SeqCst);
        let v = hannibal::runtime::block_on(async {
            let v = run(&p).await;
            // registry is process-global: empty it between programs
            let _ = Addr::<H<1>>::unregister().await;
            v
        });
        println!("{v}");
    }
}

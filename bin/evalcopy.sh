#!/bin/sh
# bin/evalcopy.sh <N> "<seeded-id> <props...>" ...   evaluate seeded changes in an isolated copy /tmp/ev/N of /verif + /repo
N=$1; shift
E=/tmp/ev/$N
rm -rf $E; mkdir -p $E
rsync -a --exclude work --exclude replays --exclude 'harness-rt/target*' --exclude .git /verif/ $E/verif/
git clone -q /repo $E/repo
mkdir -p $E/verif/work
export VERIF_REPO=$E/repo VERIF_MUTVERIFY=$E/mutverify VERIF_JOBS=${VERIF_JOBS:-5}
rm -f $E/verif/repo-link
for item in "$@"; do
  set -- $item; id=$1; shift
  (cd $E/verif && bin/seedcheck.py seeded/$id "$@" > work/seed_$id.log 2>&1)
  [ -n "${VERIF_NOMETA:-}" ] || cp $E/verif/seeded/$id/meta.json /verif/seeded/$id/meta.json 2>/dev/null
  cp $E/verif/work/seed_$id.log /verif/work/ev${OUTTAG:-}_$id.log 2>/dev/null
done
echo done > /verif/work/ev_$N.done
rm -rf $E

#!/usr/bin/env python3
"""Regenerate MANIFEST.json from bin/props.py (claimed properties) and the not-applicable table."""
import json, os, sys
sys.path.insert(0, os.path.dirname(os.path.abspath(__file__)))
import props

VERIF = os.path.dirname(os.path.dirname(os.path.abspath(__file__)))
ALL = [json.loads(l)["id"] for l in open(os.path.join(VERIF, "properties.jsonl"))]
TEXT = props.LEVEL_TEXT
checks = []
for pid in ALL:
    if pid not in props.PROPS:
        continue
    P = props.PROPS[pid]
    cmd = P.get("cmd", f"bin/check {pid}")
    checks.append({
        "property_id": pid,
        "quick_cmd": f"{cmd} --tier quick",
        "thorough_cmd": f"{cmd} --tier thorough",
        "evidence_file": f"/verif/evidence/{pid}.json",
        "replay_cmd_template": f"{cmd} --replay {{path}}",
        "engine": "tlc-trace",
        "level_claimed": {"category": "model_checking", "text": TEXT.get(pid, props.DEFAULT_TEXT), "design_ref": f"DESIGN.md section 6, {pid}"},
        "level_note": "Trusted base: TLC; the API-level model of futures-channel/futures-util/async-lock/Arc in spec/Hannibal.tla (validated by the conformance runs themselves); the deterministic executor and the feature-gated shim (src/verif.rs). Exhaustive only within the bounds of the listed MC configurations; beyond them seeded random programs/schedules/faults, every trace validated by TLC.",
        "technique": P.get("technique", "TLA+ spec (spec/Hannibal.tla) model-checked with TLC + TLC trace validation of executions of the real crate"),
    })
na = [{"property_id": pid, "reason": props.NOT_YET.get(pid, "check not built yet (work in progress; see DESIGN.md section 9)")} for pid in ALL if pid not in props.PROPS]
man = {
    "version": 1,
    "setup_cmd": "bin/setup",
    "hooks": {"guard": "verif", "enable": "cargo feature `verif` of hannibal (harness/Cargo.toml: hannibal = { path = \"../repo-link\", features = [\"verif\"] }; /verif/repo-link is a symlink to /repo made by the checks, or to $VERIF_REPO when a scratch copy is being judged)",
              "baseline_off_cmd": "cd /repo && cargo test --workspace --no-fail-fast --offline",
              "source_commits": props.HOOK_COMMITS, "add_only": True},
    "engines": [{"name": "tlc-trace", "path": "/verif/bin/check", "serves_properties": [c["property_id"] for c in checks],
                 "kind_free_text": "explicit TLA+ specification (spec/*.tla): TLC bounded exhaustive checking + TLC validation of traces recorded from the real crate on a deterministic executor"}],
    "checks": checks,
    "not_applicable": na,
    "notes": "All checks rebuild harness/ against /repo's working tree (cargo --offline). Exit 2 = tool error (never a VIOLATION). VERIF_SEED selects the scenario seed (default 0); VERIF_JOBS the number of parallel TLC trace validations (default 12). Thorough tier: each MC configuration runs under a time budget (VERIF_MC_BUDGET, default 1500 s; what TLC explored breadth-first within it counts and is marked incomplete in the evidence). known_findings.json lists the six genuine defects found (all fixed: 'fix:' commits in /repo). seeded/ holds 170+ independently produced changes that break one property each and how the checks fare on them (DESIGN.md 0.5, 0.8); benign/ holds behaviour-preserving changes the checks stay quiet on (DESIGN.md 0.3b).",
}
json.dump(man, open(os.path.join(VERIF, "MANIFEST.json"), "w"), indent=1)
print("claimed", [c["property_id"] for c in checks], "not_applicable", [n["property_id"] for n in na])

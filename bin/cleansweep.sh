#!/bin/sh
# bin/cleansweep.sh <seed> [n]: every family on the unchanged tree with a fresh seed; any rejection is a modelling / generator error
s=$1; n=${2:-300}
for f in core awaiters life fail restart timeout tmodrop rstimers timers tree registry stream broker mix; do
  echo -n "$f-$s: "; /verif/bin/explore.py $f $s $n 2>&1 | cut -c1-300 | head -8
done

#!/usr/bin/env python3
"""Measure every MC configuration of a tier (development aid)."""
import sys, os
sys.path.insert(0, os.path.dirname(os.path.abspath(__file__)))
import vlib, props
tier = sys.argv[1] if len(sys.argv) > 1 else "quick"
only = sys.argv[2:] 
seen = set()
for pid, P in props.PROPS.items():
    if only and pid not in only: continue
    if "cmd" in P: continue
    for m in P["mc"][tier]:
        if os.environ.get("MC_ONLY") and os.environ["MC_ONLY"] not in m["name"]: continue
        key = (m["name"], tuple(P["invariants"]))
        if "cmd" in P: continue
        try:
            r = vlib.run_mc(props.mc_cfg(m, P["invariants"]), "/verif/work/mcsize-" + tier, pid + "-" + m["name"], workers=props.MC_WORKERS, timeout=int(os.environ.get("MC_TIMEOUT", "1500")))
            print(pid, m["name"], r.get("states"), r["wall_s"], r["ok"], r["violated"], flush=True)
        except Exception as e:
            print(pid, m["name"], "ERR", str(e)[:200].replace("\n", " "), flush=True)

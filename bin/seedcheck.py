#!/usr/bin/env python3
"""bin/seedcheck.py <seeded/ID dir> <property> [other properties...]
Confirms a seeded change (patch.diff + demo.rs) in a scratch worktree (compiles, existing tests pass, demo fails
with / passes without), then runs the quick checks of the given properties against it in /repo and undoes it.
Writes meta.json into the directory."""
import sys, os, json, subprocess, shutil, re, time

d = os.path.abspath(sys.argv[1]); pid = sys.argv[2]; others = sys.argv[3:]
REPO = os.environ.get("VERIF_REPO", "/repo")
V = os.path.dirname(os.path.dirname(os.path.abspath(__file__)))
WT = os.environ.get("VERIF_MUTVERIFY", "/tmp/mutverify")
def sh(cmd, cwd=None, timeout=1800):
    p = subprocess.run(cmd, cwd=cwd, shell=isinstance(cmd, str), stdout=subprocess.PIPE, stderr=subprocess.STDOUT, text=True, timeout=timeout)
    return p.returncode, p.stdout
prev = None
if os.environ.get("VERIF_SKIP_CONFIRM") and os.path.exists(os.path.join(d, "meta.json")):
    try:
        prev = json.load(open(os.path.join(d, "meta.json")))
    except Exception:
        prev = None
if prev and prev.get("confirmed"):
    # confirmed earlier (the change and the crate are the same): only the checks are run again, on the current machinery
    meta = {k: prev[k] for k in ("property", "dir", "at_repo_commit", "needs", "confirmed", "why") if k in prev}
    meta["ran"] = [r for r in prev.get("ran", []) if "cargo test" in r.get("cmd", "")]
    rc, out = sh([os.path.join(V, "bin", "mutcheck"), os.path.join(d, "patch.diff"), pid, *others], timeout=7200)
    meta["checks"] = out.strip().splitlines()
    meta["detected_by_own_check"] = any(l.startswith(f"[{pid} rc=1]") for l in meta["checks"])
    meta["other_checks_alarmed"] = [l.split()[0][1:] for l in meta["checks"] if " rc=1]" in l and not l.startswith(f"[{pid} ")]
    meta["ran"].append({"cmd": f"bin/mutcheck {os.path.basename(d)}/patch.diff {pid} {' '.join(others)}"})
    json.dump(meta, open(os.path.join(d, "meta.json"), "w"), indent=1)
    print(json.dumps({k: meta.get(k) for k in ("confirmed", "why", "checks", "detected_by_own_check", "other_checks_alarmed")}, indent=1))
    sys.exit(0)
if not os.path.isdir(WT):
    sh(["git", "-C", REPO, "worktree", "add", "-q", "--detach", WT, "HEAD"])
sh(f"git checkout -q --detach $(git -C {REPO} rev-parse HEAD) && git checkout -- . && git clean -fdq tests src", cwd=WT)
meta = {"property": pid, "dir": os.path.basename(d), "at_repo_commit": sh(f"git -C {REPO} rev-parse --short HEAD")[1].strip(), "ran": []}
notes = os.path.join(d, "notes.md")
if os.path.exists(notes):
    meta["needs"] = open(notes).read()[:1500]
shutil.copy(os.path.join(d, "demo.rs"), os.path.join(WT, "tests", "seeded_demo.rs"))
def tests(label):
    rc, out = sh("cargo test --offline --no-fail-fast 2>&1", cwd=WT)
    unit = re.search(r"test result: (\w+)\. (\d+) passed; (\d+) failed", out)
    demo = re.search(r"Running tests/seeded_demo\.rs.*?test result: (\w+)\. (\d+) passed; (\d+) failed", out, re.S)
    compiled = "error: could not compile" not in out
    r = {"label": label, "compiled": compiled, "unit": unit.groups() if unit else None, "demo": demo.groups() if demo else None}
    meta["ran"].append({"cmd": f"cargo test --offline --no-fail-fast ({label})", **r})
    return r
base = tests("without the change")
rc, out = sh(["git", "apply", os.path.join(d, "patch.diff")], cwd=WT)
if rc != 0:
    meta["confirmed"] = False; meta["why"] = "patch does not apply: " + out[-300:]
else:
    mut = tests("with the change")
    ok_base = base["compiled"] and base["unit"] and base["unit"][0] == "ok" and base["demo"] and base["demo"][0] == "ok"
    ok_mut = mut["compiled"] and mut["unit"] and mut["unit"][0] == "ok" and mut["unit"][1] == base["unit"][1] and mut["demo"] and mut["demo"][0] != "ok"
    meta["confirmed"] = bool(ok_base and ok_mut)
    meta["why"] = f"baseline ok={ok_base} (unit {base['unit']}, demo {base['demo']}); changed ok={ok_mut} (unit {mut['unit']}, demo {mut['demo']})"
sh("git checkout -- . && git clean -fdq tests src", cwd=WT)
if meta.get("confirmed"):
    rc, out = sh([os.path.join(V, "bin", "mutcheck"), os.path.join(d, "patch.diff"), pid, *others], timeout=7200)
    meta["checks"] = out.strip().splitlines()
    meta["detected_by_own_check"] = any(l.startswith(f"[{pid} rc=1]") for l in meta["checks"])
    meta["other_checks_alarmed"] = [l.split()[0][1:] for l in meta["checks"] if " rc=1]" in l and not l.startswith(f"[{pid} ")]
    meta["ran"].append({"cmd": f"bin/mutcheck {os.path.basename(d)}/patch.diff {pid} {' '.join(others)}"})
json.dump(meta, open(os.path.join(d, "meta.json"), "w"), indent=1)
print(json.dumps({k: meta.get(k) for k in ("confirmed", "why", "checks", "detected_by_own_check", "other_checks_alarmed")}, indent=1))

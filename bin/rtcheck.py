#!/usr/bin/env python3
"""C18: spawn / detach / join / stop behave identically on tokio, async-std and smol.

Outcome-level conformance (DESIGN 4.7): every program of a family of timing-independent client programs (one group
per spawn entry point) is (1) run on each REAL runtime (harness-rt built three times, no scheduler shim) and
(2) given to TLC (spec/Outcome.tla: the same specification under free interleaving) which prints the set of
terminal outcomes the specification allows.  Each runtime's observed outcome must be a member of that set; a
runtime whose process hangs or crashes on a program is a violation as well."""
import sys, os, json, re, time, shutil, random, subprocess
sys.path.insert(0, os.path.dirname(os.path.abspath(__file__)))
import vlib

RT = os.path.join(vlib.VERIF, "harness-rt")
RUNTIMES = [("tokio", "tokio_rt"), ("async-std", "async_rt"), ("smol", "smol_rt")]
ENTRIES = ["spawn", "spawn_owning", "spawn_default", "spawn_default_owning", "spawn_on_stream", "spawn_owning_on_stream",
           "builder_spawn", "builder_spawn_owning", "builder_stream_spawn", "builder_stream_spawn_owning"]


def cfg_of(entry, items, ended):
    cfg = {"owning": "owning" in entry}
    if "stream" in entry:
        cfg.update({"stream": True, "strat": "none", "items0": items, "ended0": ended})
    if entry == "builder_spawn":
        cfg["cap"] = 2
    if entry == "builder_spawn_owning":
        cfg["strat"] = "recreate"
    if entry == "builder_stream_spawn_owning":
        cfg["cap"] = 2
    return cfg


def programs(seed, tier):
    rng = random.Random(f"rt-{seed}")
    progs = []

    def add(pid, ops):
        progs.append({"id": pid, "ops": ops})

    for e in ENTRIES:
        own = "owning" in e
        for variant in range(3 if tier == "quick" else 6):
            items = rng.choice([0, 0, 2]) if "stream" in e else 0
            sp = {"op": "spawn", "entry": e, "nh": "h", "a": "a1", "items": items, "ended": False}
            body = []
            for _ in range(rng.randint(1, 3)):
                body.append({"op": rng.choice(["call", "send", "call", "ping"]), "h": "h"})
            body.append({"op": "call", "h": "h"})
            if own:
                end = rng.choice([
                    [{"op": "to_addr", "h": "h", "nh": "t"}, {"op": "stop", "h": "t"}, {"op": "join", "h": "h"}, {"op": "join", "h": "h"}, {"op": "call", "h": "t"}],
                    [{"op": "consume", "h": "h"}],
                    [{"op": "consume_sync", "h": "h"}],
                    [{"op": "to_addr", "h": "h", "nh": "t"}, {"op": "join_dd", "h": "h", "pre": "stop_t"}],
                    [{"op": "to_addr", "h": "h", "nh": "t"}, {"op": "consume_sync", "h": "h"}, {"op": "call", "h": "t"}],
                    [{"op": "to_addr", "h": "h", "nh": "t"}, {"op": "halt", "h": "t"}, {"op": "join", "h": "h"}],
                    [{"op": "detach", "h": "h", "nh": "t"}, {"op": "call", "h": "t"}, {"op": "halt", "h": "t"}],
                ])
            else:
                end = rng.choice([
                    [{"op": "stop", "h": "h"}, {"op": "await", "h": "h"}],
                    [{"op": "halt", "h": "h"}],
                    [{"op": "clone", "h": "h", "nh": "t"}, {"op": "stop", "h": "t"}, {"op": "await", "h": "t"}, {"op": "call", "h": "h"}, {"op": "stopped", "h": "h"}],
                ])
            end = [x for o in end for x in ([{"op": "stop", "h": "t"}, {k: v for k, v in o.items() if k != "pre"}] if o.get("pre") == "stop_t" else [o])]
            if rng.random() < 0.35:
                body.insert(rng.randrange(len(body) + 1), {"op": "call_sync", "h": "h"})
            add(f"{e}-{variant}", [sp] + body + end)
    # registry entry points: from_registry / setup / Addr::register / builder .register()
    add("from_registry-0", [{"op": "from_registry", "nh": "x"}, {"op": "call", "h": "x"}, {"op": "from_registry", "nh": "y"}, {"op": "call", "h": "y"},
                            {"op": "stop", "h": "x"}, {"op": "await", "h": "x"}, {"op": "call", "h": "y"},
                            {"op": "from_registry", "nh": "z"}, {"op": "call", "h": "z"}, {"op": "halt", "h": "z"}])
    add("setup-0", [{"op": "setup"}, {"op": "from_registry", "nh": "x"}, {"op": "call", "h": "x"}, {"op": "halt", "h": "x"}])
    add("addr_register-0", [{"op": "spawn_svc", "nh": "s", "a": "a1"}, {"op": "register", "h": "s", "nh": "r", "nh2": "o"}, {"op": "from_registry", "nh": "x"},
                            {"op": "call", "h": "x"}, {"op": "unregister", "nh": "u"}, {"op": "halt", "h": "u"}, {"op": "call", "h": "x"}])
    add("builder_register-0", [{"op": "spawn_pre", "nh": "s", "a": "a1"}, {"op": "register_builder", "h": "s", "nh": "r", "nh2": "o"}, {"op": "call", "h": "r"},
                               {"op": "from_registry", "nh": "x"}, {"op": "call", "h": "x"}, {"op": "halt", "h": "x"}, {"op": "call", "h": "r"}])
    return progs


def spec_program(p):
    """The same program in the spec's operation records (client `main`)."""
    ops = []
    for o in p["ops"]:
        s = {"op": o["op"], "h": o.get("h", "none"), "nh": o.get("nh", "none"), "a": o.get("a", "none"), "scr": [], "d": 0, "to": "main",
             "ty": "0", "nh2": o.get("nh2", "none"), "h2": "none"}
        if o["op"] == "spawn":
            c = cfg_of(o["entry"], o.get("items", 0), o.get("ended", False))
            s["cfg"] = dict({"cap": -1, "strat": "restart", "stream": False, "tmo": -1, "failto": False, "owning": False, "sscr": [], "pscr": [],
                             "fscr": [], "ty": "0", "items0": 0, "ended0": False, "iscr": []}, **c)
        elif o["op"] in ("spawn_svc", "spawn_pre"):
            s["op"] = "spawn"
            s["cfg"] = {"cap": -1, "strat": "restart", "stream": False, "tmo": -1, "failto": False, "owning": False, "sscr": [], "pscr": [],
                        "fscr": [], "ty": "1", "items0": 0, "ended0": False, "iscr": []}
        elif o["op"] == "register_builder":
            s["op"] = "register"
        elif o["op"] == "join_dd":
            s["op"] = "join"
        elif o["op"] == "call_sync":
            s["op"] = "call"
        elif o["op"] in ("from_registry", "setup", "unregister"):
            s["ty"] = "1"
        ops.append(s)
    return {"id": p["id"], "prog": {"main": ops}}


def norm_spec(o):
    """Projection of a TLC outcome comparable with the runtime's record."""
    res = [{"res": r["res"], **({"pos": r["pos"]} if r["res"] in ("ok", "some") and r["pos"] else {})} for r in o["results"].get("main", [])]
    actors = {}
    for a, v in o["actors"].items():
        seq = list(v["cb"])
        actors[str(v["inst"])] = {"cb": [x for x in seq], "handled": [f"{'s' if m[0].startswith('s.') else m[0]}:{m[1]}" for m in v["handled"]]}
    return {"results": res, "actors": actors, "hung": sorted(o.get("hung", []))}


def norm_rt(o):
    res = [{"res": r["res"], **({"pos": r["pos"]} if r["res"] in ("ok", "some") and r.get("pos") else {})} for r in o["results"]]
    actors = {}
    for inst, seq in o["actors"].items():
        actors[str(inst)] = {"cb": [x for x in seq if not x.startswith("h:")], "handled": [x[2:] for x in seq if x.startswith("h:")]}
    return {"results": res, "actors": actors, "hung": []}


def key(n, with_handled=True):
    # calls' positions already pin the fold; the per-actor callback sequence and handled ids complete the outcome
    return json.dumps({"results": n["results"], "actors": {k: (v if with_handled else {"cb": v["cb"]}) for k, v in sorted(n["actors"].items())}}, sort_keys=True)


def main():
    import argparse
    ap = argparse.ArgumentParser()
    ap.add_argument("--tier", default=os.environ.get("VERIF_TIER", "quick"))
    ap.add_argument("--replay")
    args = ap.parse_args()
    tier = args.tier if args.tier in ("quick", "thorough") else "quick"
    seed = int(os.environ.get("VERIF_SEED", "0") or 0)
    t0 = time.time()
    wd = os.path.join(vlib.WORK, f"C18-{tier}-{os.getpid()}")
    shutil.rmtree(wd, ignore_errors=True)
    os.makedirs(wd)
    try:
        lock = os.path.join(RT, "Cargo.lock")
        if not os.path.exists(lock):
            shutil.copy(os.path.join(vlib.REPO, "Cargo.lock"), lock)
        bins = {}
        for name, feat in RUNTIMES:
            rc, out = vlib.sh(["cargo", "build", "--offline", "--quiet", "--no-default-features", "--features", feat, "--target-dir", f"target-{name}"],
                              cwd=RT, env={"CARGO_NET_OFFLINE": "true"}, timeout=2400)
            if rc != 0:
                raise vlib.ToolError(f"harness-rt build for {name} failed:\n" + out[-3000:])
            bins[name] = os.path.join(RT, f"target-{name}", "debug", "hrt")
        progs = [json.load(open(args.replay))["program"]] if args.replay else programs(seed, tier)
        pf = os.path.join(wd, "programs.ndjson")
        with open(pf, "w") as f:
            for p in progs:
                f.write(json.dumps(p) + "\n")
        # ---- the specification's outcome sets
        vlib.stage_spec(wd)
        sp = os.path.join(wd, "progs.json")
        json.dump([spec_program(p) for p in progs], open(sp, "w"))
        with open(os.path.join(wd, "O.cfg"), "w") as f:
            f.write('SPECIFICATION OSpec\nCONSTANTS\n  Actor = {"a1", "r1", "r2", "r3"}\n  Client = {"main"}\n  Dev = {}\n  Profile = "debug"\nINVARIANTS Emit C01 C02 C03 C04 C08 C17\nCHECK_DEADLOCK FALSE\n')
        rc, out = vlib.sh(vlib.tlc_cmd("O.cfg", "Outcome.tla", os.path.join(wd, "md"), 8, ("-Xmx8g", "-Xss64m")), cwd=wd, env={"PROGS": sp}, timeout=2400)
        if "No error has been found" not in out:
            v = re.search(r"Invariant (\w+) is violated", out)
            if v:
                path = write_replay({"kind": "spec", "violated": v.group(1)})
                print(f"VIOLATION property=C18 replay={path}")
                return 1
            m2 = re.search(r"(Error: .*?)(?:Error: The behavior|$)", out, re.S)
            raise vlib.ToolError("TLC outcome enumeration failed:\n" + (m2.group(1)[:2000] if m2 else out[-2000:]))
        st = re.search(r"(\d+) states generated, (\d+) distinct states found", out)
        allowed = {}
        for m in re.findall(r'<<"OUTCOME", "(.*)">>', out):
            o = json.loads(json.loads('"' + m + '"'))
            allowed.setdefault(o["id"], set()).add(key(norm_spec(o)))
            if o.get("hung"):
                allowed[o["id"]].add("HUNG")
        # ---- the real runtimes
        viol = []
        observed = {}
        for name, _ in RUNTIMES:
            try:
                p = subprocess.run([bins[name], pf], stdout=subprocess.PIPE, stderr=subprocess.PIPE, text=True, timeout=120)
                lines = [json.loads(l) for l in p.stdout.splitlines() if l.startswith("{")]
                crashed = p.returncode != 0
            except subprocess.TimeoutExpired as ex:
                lines = [json.loads(l) for l in (ex.stdout or b"").decode().splitlines() if l.startswith("{")]
                crashed = True
            got = {o["id"]: o for o in lines}
            for pr in progs:
                if pr["id"] not in got:
                    if crashed:
                        viol.append((name, pr, None, "the process hung or crashed on this program"))
                        break
                    continue
                k = key(norm_rt(got[pr["id"]]))
                observed.setdefault(pr["id"], {})[name] = k
                if k not in allowed.get(pr["id"], set()):
                    viol.append((name, pr, got[pr["id"]], "outcome not allowed by the specification"))
        n_single = sum(1 for v in allowed.values() if len(v) == 1)
        samples = [{"program": progs[i], "allowed_outcomes": len(allowed.get(progs[i]["id"], [])), "observed": {r: json.loads(k) for r, k in observed.get(progs[i]["id"], {}).items()}}
                   for i in (0, len(progs) // 2)]
        cov = {"states": int(st.group(2)) if st else 1, "transitions": int(st.group(1)) if st else 1,
               "traces_validated_against_impl": sum(len(v) for v in observed.values()), "samples": samples,
               "evaluations": len(progs) * len(RUNTIMES), "distinct_nontrivial": len(progs),
               "rule": "programs: one group per spawn entry point (13) x seeded timing-independent bodies/endings; each run on tokio, async-std and smol; "
                       "TLC enumerates all terminal outcomes of the same program under free interleaving; membership per runtime",
               "exhaustive": False, "programs": len(progs), "runtimes": [r for r, _ in RUNTIMES], "programs_with_singleton_outcome_set": n_single,
               "spawn_entry_points": ENTRIES + ["from_registry", "setup", "Addr::register", "builder .register()"]}
        ev = {"property_id": "C18", "tier": tier, "seed": seed, "level": "model_checking", "coverage": cov,
              "assumptions": ["programs with panics and wall-clock timing (timers) are excluded: panic policy and time belong to the runtime",
                              "outcome-level binding: no step-level validation on real multi-threaded runtimes (DESIGN 4.7)"],
              "wall_s": round(time.time() - t0, 1), "violations": len(viol)}
        os.makedirs(vlib.EVIDENCE, exist_ok=True)
        json.dump(ev, open(os.path.join(vlib.EVIDENCE, "C18.json"), "w"), indent=1)
        if viol:
            name, pr, got, what = viol[0]
            path = write_replay({"kind": "runtime", "runtime": name, "program": pr, "observed": got, "what": what,
                                 "allowed": [json.loads(k) for k in sorted(allowed.get(pr["id"], [])) if k != "HUNG"][:5]})
            print(f"VIOLATION property=C18 replay={path}")
            print(f"  runtime={name} program={pr['id']}: {what}")
            return 1
        print(f"OK property=C18 tier={tier} programs={len(progs)} runtimes=3 singleton_outcome_sets={n_single} mc_states={cov['states']} wall={time.time()-t0:.0f}s")
        return 0
    except vlib.ToolError as e:
        print(f"TOOL-ERROR property=C18: {e}", file=sys.stderr)
        return 2
    finally:
        if not os.environ.get("VERIF_KEEP"):
            shutil.rmtree(wd, ignore_errors=True)


def write_replay(obj):
    d = os.path.join(vlib.REPLAYS, "C18")
    os.makedirs(d, exist_ok=True)
    path = os.path.join(d, f"{len(os.listdir(d)) + 1}.json")
    obj["property"] = "C18"
    json.dump(obj, open(path, "w"), indent=1)
    return path


if __name__ == "__main__":
    sys.exit(main())

#!/usr/bin/env python3
"""C19: the catalogue of well-typed / ill-typed client programs is enumerated by TLC from spec/Types.tla
(the builder's type-state LTS and the entry-point -> required-facts table); every case becomes a Rust
program and rustc is the implementation it is validated against:
  expect=ok     -> must compile
  expect=reject -> must be rejected with an error of the predicted class.
Exit 0 / 1 (VIOLATION) / 2 (tool error) as all checks."""
import sys, os, json, re, time, shutil, glob, subprocess, hashlib
from concurrent.futures import ThreadPoolExecutor
sys.path.insert(0, os.path.dirname(os.path.abspath(__file__)))
import vlib

TY = os.path.join(vlib.VERIF, "harness-ty")
ENVS = ["none", "H", "U", "C", "R", "D", "S", "T", "H0", "E"]
ERR_CLASS = {"H": {"E0277", "E0599"}, "U": {"E0271", "E0277", "E0599"}, "C": {"E0277", "E0599"}, "R": {"E0277", "E0599"},
             "D": {"E0277", "E0599"}, "S": {"E0277", "E0599"}, "T": {"E0277", "E0599"}, "H0": {"E0277", "E0599"},
             "E": {"E0308", "E0277"}, "state": {"E0599"}}


def prelude(facts):
    """Type environment: actor A, message M (and friends) with exactly the given facts."""
    H, U, C, R, D, S, T, H0 = (f in facts for f in ["H", "U", "C", "R", "D", "S", "T", "H0"])
    resp = "()" if U else "u32"
    val = "()" if U else "7"
    p = ["#![allow(unused, dead_code)]",
         "use hannibal::{prelude::*, Actor, Addr, OwningAddr, Broker, Caller, Sender, WeakSender, WeakCaller, RestartableActor, Service, Context, Handler, Message, StreamHandler};",
         "use hannibal::spawner::{Spawnable, StreamSpawnable};",
         "use std::time::Duration;",
         ("#[derive(Default)] " if D else "") + "struct A;",
         "impl Actor for A {}",
         ("#[derive(Clone)] " if C else "") + "struct M;",
         f"impl Message for M {{ type Response = {resp}; }}",
         "#[derive(Clone)] struct Other;",
         "impl Message for Other { type Response = (); }",
         "impl Handler<Other> for A { async fn handle(&mut self, _: &mut Context<Self>, _: Other) {} }",
         "struct OtherC;",
         "impl Message for OtherC { type Response = u8; }",
         "impl Handler<OtherC> for A { async fn handle(&mut self, _: &mut Context<Self>, _: OtherC) -> u8 { 1 } }"]
    if H:
        p.append(f"impl Handler<M> for A {{ async fn handle(&mut self, _: &mut Context<Self>, _: M) -> {resp} {{ {val} }} }}")
    if R:
        p.append("impl RestartableActor for A {}")
    if S and D:
        p.append("impl Service for A {}")
    if T:
        p.append("impl StreamHandler<i32> for A { async fn handle(&mut self, _: &mut Context<Self>, _: i32) {} }")
    if H0:
        p.append("impl Handler<()> for A { async fn handle(&mut self, _: &mut Context<Self>, _: ()) {} }")
    return p


ENTRY_BODY = {
    "addr_send": "async fn f(addr: Addr<A>) { let _ = addr.send(M).await; }",
    "addr_call": "async fn f(addr: Addr<A>) { let _ = addr.call(M).await; }",
    "addr_sender": "fn f(addr: Addr<A>) { let _s = addr.sender::<M>(); }",
    "addr_caller": "fn f(addr: Addr<A>) { let _s = addr.caller::<M>(); }",
    "addr_weak_sender": "fn f(addr: Addr<A>) { let _s = addr.weak_sender::<M>(); }",
    "addr_weak_caller": "fn f(addr: Addr<A>) { let _s = addr.weak_caller::<M>(); }",
    "sender_from": "fn f(addr: Addr<A>) { let _s: Sender<M> = Sender::from(addr); }",
    "caller_from": "fn f(addr: Addr<A>) { let _s: Caller<M> = Caller::from(addr); }",
    "weak_sender_from": "fn f(addr: Addr<A>) { let _s: WeakSender<M> = WeakSender::from(addr); }",
    "weak_caller_from": "fn f(addr: Addr<A>) { let _s: WeakCaller<M> = WeakCaller::from(addr); }",
    "owning_send": "async fn f(addr: OwningAddr<A>) { let _ = addr.send(M).await; }",
    "owning_call": "async fn f(addr: OwningAddr<A>) { let _ = addr.call(M).await; }",
    "ctx_interval": "fn f(ctx: &mut Context<A>) { ctx.interval(M, Duration::from_millis(1)); }",
    "ctx_interval_with": "fn f(ctx: &mut Context<A>) { ctx.interval_with(|| M, Duration::from_millis(1)); }",
    "ctx_delayed_send": "fn f(ctx: &mut Context<A>) { ctx.delayed_send(|| M, Duration::from_millis(1)); }",
    "ctx_add_child": "struct P; impl Actor for P {}\nfn f(ctx: &mut Context<P>, child: Addr<A>) { ctx.add_child(child); }",
    "ctx_register_child": "struct P; impl Actor for P {}\nfn f(ctx: &mut Context<P>, child: Addr<A>) { ctx.register_child::<M>(child); }",
    "ctx_send_to_children": "fn f(ctx: &mut Context<A>) { ctx.send_to_children(M); }",
    "ctx_subscribe": "async fn f(ctx: &mut Context<A>) { let _ = ctx.subscribe::<M>().await; }",
    "ctx_publish": "async fn f(ctx: &mut Context<A>) { let _ = ctx.publish(M).await; }",
    "broker_publish": "async fn f() { let _ = Broker::publish(M).await; }",
    "addr_restart": "fn f(mut addr: Addr<A>) { let _ = addr.restart(); }",
    "ctx_restart": "fn f(ctx: &mut Context<A>) { let _ = ctx.restart(); }",
    "addr_register": "async fn f(addr: Addr<A>) { let _ = addr.register().await; }",
    "from_registry": "async fn f() { let _a: Addr<A> = A::from_registry().await; }",
    "spawn_on_stream": "fn f() { let _ = A.spawn_on_stream(futures::stream::iter(vec![1i32, 2])); }",
    # type-erased handles accept only their own message type (E true: the right one)
    "sender_send": ("async fn f(s: Sender<Other>) { let _ = s.send(Other).await; }", "async fn f(s: Sender<Other>) { let _ = s.send(OtherC).await; }"),
    "weak_sender_try_send": ("async fn f(s: WeakSender<Other>) { let _ = s.try_send(Other).await; }", "async fn f(s: WeakSender<Other>) { let _ = s.try_send(OtherC).await; }"),
    "caller_call": ("async fn f(s: Caller<OtherC>) { let _ = s.call(OtherC).await; }", "async fn f(s: Caller<OtherC>) { let _ = s.call(Other).await; }"),
    "weak_caller_try_call": ("async fn f(s: WeakCaller<OtherC>) { let _ = s.try_call(OtherC).await; }", "async fn f(s: WeakCaller<OtherC>) { let _ = s.try_call(Other).await; }"),
}
METHOD_CALL = {
    "unbounded": ".unbounded()", "bounded": ".bounded(2)", "timeout": ".timeout(Duration::from_millis(5))", "fail_on_timeout": ".fail_on_timeout(true)",
    "on_stream": ".on_stream(futures::stream::iter(vec![1i32]))", "bounded_on_stream": ".bounded_on_stream(2, futures::stream::iter(vec![1i32]))",
    "non_restartable": ".non_restartable()", "recreate_from_default": ".recreate_from_default()",
    "with_stream": ".with_stream(futures::stream::iter(vec![1i32]))", "spawn": ".spawn()", "spawn_owning": ".spawn_owning()", "register": ".register()",
}


def program(case):
    missing = case["missing"]
    facts = {"H", "U", "C", "R", "D", "S", "T", "H0", "E"} - {missing}
    if missing == "D":
        facts -= {"S"}
    lines = prelude(facts)
    if case["kind"] == "entry":
        b = ENTRY_BODY[case["entry"]]
        if isinstance(b, tuple):
            b = b[0] if "E" in facts else b[1]
        lines.append(b)
    else:
        chain = "".join(METHOD_CALL[m] for m in case["path"])
        if case["path"] and case["path"][-1] == "register":
            lines.append(f"async fn f() {{ let _ = hannibal::build(A){chain}.await; }}")
        else:
            lines.append(f"fn f() {{ let _ = hannibal::build(A){chain}; }}")
    return "\n".join(lines) + "\n"


def enumerate_cases(workdir, maxlen):
    os.makedirs(workdir, exist_ok=True)
    shutil.copy(os.path.join(vlib.SPEC, "Types.tla"), os.path.join(workdir, "Types.tla"))
    cases, states, transitions = [], 0, 0

    def one(env):
        cfg = os.path.join(workdir, f"T_{env}.cfg")
        with open(cfg, "w") as f:
            f.write(f'SPECIFICATION Spec\nCONSTANTS\n  MaxLen = {maxlen}\n  Missing = "{env}"\nINVARIANTS TypeInv Emit EmitEntries\nCHECK_DEADLOCK FALSE\n')
        md = os.path.join(workdir, f"md_{env}")
        rc, out = vlib.sh(vlib.tlc_cmd(os.path.basename(cfg), "Types.tla", md, 1), cwd=workdir, timeout=600)
        shutil.rmtree(md, ignore_errors=True)
        if "No error has been found" not in out:
            v = re.search(r"Invariant (\w+) is violated", out)
            return env, None, (v.group(1) if v else out[-1500:]), 0, 0
        cs = [json.loads(json.loads('"' + m + '"')) for m in re.findall(r'<<"CASE", "(.*)">>', out)]
        m = re.search(r"(\d+) states generated, (\d+) distinct states found", out)
        return env, cs, None, int(m.group(2)), int(m.group(1))

    with ThreadPoolExecutor(max_workers=5) as ex:
        for env, cs, err, s, t in ex.map(one, ENVS):
            if cs is None:
                return None, err, 0, 0
            cases += cs
            states += s
            transitions += t
    return cases, None, states, transitions


def main():
    import argparse
    ap = argparse.ArgumentParser()
    ap.add_argument("--tier", default=os.environ.get("VERIF_TIER", "quick"))
    ap.add_argument("--replay")
    args = ap.parse_args()
    tier = args.tier if args.tier in ("quick", "thorough") else "quick"
    seed = int(os.environ.get("VERIF_SEED", "0") or 0)
    t0 = time.time()
    wd = os.path.join(vlib.WORK, f"C19-{tier}-{os.getpid()}")
    shutil.rmtree(wd, ignore_errors=True)
    os.makedirs(wd)
    try:
        lock = os.path.join(TY, "Cargo.lock")
        if not os.path.exists(lock):
            shutil.copy(os.path.join(vlib.REPO, "Cargo.lock"), lock)
        rc, out = vlib.sh(["cargo", "build", "--offline", "--quiet"], cwd=TY, env={"CARGO_NET_OFFLINE": "true"}, timeout=1500)
        if rc != 0:
            raise vlib.ToolError("building hannibal for the type catalogue failed:\n" + out[-3000:])
        deps = os.path.join(TY, "target", "debug", "deps")

        def newest(pat):
            xs = sorted(glob.glob(os.path.join(deps, pat)), key=os.path.getmtime)
            if not xs:
                raise vlib.ToolError("rlib not found: " + pat)
            return xs[-1]
        ext = ["--extern", "hannibal=" + newest("libhannibal-*.rlib"), "--extern", "futures=" + newest("libfutures-*.rlib")]
        if args.replay:
            obj = json.load(open(args.replay))
            cases = [obj["case"]]
            states = transitions = 1
        else:
            cases, err, states, transitions = enumerate_cases(os.path.join(wd, "tlc"), 3 if tier == "quick" else 4)
            if cases is None:
                path = write_replay({"kind": "spec", "violated": err})
                print(f"VIOLATION property=C19 replay={path}")
                return 1
        # de-duplicate by program text (many environments give the same program)
        progs = {}
        for c in cases:
            src = program(c)
            key = (src, c["expect"])
            progs.setdefault(key, c)
        items = list(progs.items())
        pdir = os.path.join(wd, "progs")
        os.makedirs(pdir)

        def compile_one(ix):
            (src, expect), c = items[ix]
            fn = os.path.join(pdir, f"case_{ix}.rs")
            with open(fn, "w") as f:
                f.write(src)
            rc, out = vlib.sh(["rustc", "--edition", "2024", "--crate-type", "lib", "--emit=metadata", "-L", "dependency=" + deps, *ext,
                               "-o", os.path.join(pdir, f"case_{ix}.rmeta"), fn], timeout=300)
            codes = set(re.findall(r"error\[(E\d+)\]", out))
            return ix, rc, codes, out

        results = []
        with ThreadPoolExecutor(max_workers=14) as ex:
            for r in ex.map(compile_one, range(len(items))):
                results.append(r)
        viol = []
        n_ok = n_rej = 0
        for ix, rc, codes, out in results:
            (src, expect), c = items[ix]
            if "internal compiler error" in out:
                raise vlib.ToolError("rustc ICE")
            if expect == "ok":
                n_ok += 1
                if rc != 0:
                    viol.append((c, src, "well-typed twin rejected: " + ", ".join(sorted(codes)), out))
            else:
                n_rej += 1
                why = c["why"]
                klass = ERR_CLASS["state"] if why[0] == "state" else ERR_CLASS.get(why[1], {"E0277", "E0599"})
                if rc == 0:
                    viol.append((c, src, "ill-typed program accepted", out))
                elif not (codes & klass):
                    viol.append((c, src, f"rejected, but with {sorted(codes)} instead of one of {sorted(klass)}", out))
        samples = [{"case": items[i][1], "program": items[i][0][0].splitlines()[-1], "expect": items[i][0][1]} for i in range(0, len(items), max(1, len(items) // 4))][:4]
        cov = {"states": max(states, 1), "transitions": max(transitions, 1), "traces_validated_against_impl": len(items), "samples": samples,
               "evaluations": len(cases), "distinct_nontrivial": len(items),
               "rule": "TLC enumerates every method chain of the builder LTS up to MaxLen and every entry point, under each environment with at most one "
                       "fact missing; distinct = distinct generated Rust program; each compiled with rustc against the freshly built rlib",
               "exhaustive": True, "well_typed_programs": n_ok, "ill_typed_programs": n_rej, "environments": ENVS, "max_chain_length": 3 if tier == "quick" else 4}
        ev = {"property_id": "C19", "tier": tier, "seed": seed, "level": "model_checking", "coverage": cov,
              "assumptions": ["the catalogue is what spec/Types.tla generates: it does not show that no program outside it is wrongly accepted",
                              "rustc is the oracle for 'rejected at compile time'"],
              "wall_s": round(time.time() - t0, 1), "violations": len(viol)}
        os.makedirs(vlib.EVIDENCE, exist_ok=True)
        json.dump(ev, open(os.path.join(vlib.EVIDENCE, "C19.json"), "w"), indent=1)
        if viol:
            c, src, what, out = viol[0]
            path = write_replay({"kind": "case", "case": c, "program": src, "what": what, "rustc": out[-2000:]})
            print(f"VIOLATION property=C19 replay={path}")
            print(f"  {what}: {json.dumps(c)}")
            return 1
        print(f"OK property=C19 tier={tier} cases={len(cases)} programs={len(items)} well_typed={n_ok} ill_typed={n_rej} wall={time.time()-t0:.0f}s")
        return 0
    except vlib.ToolError as e:
        print(f"TOOL-ERROR property=C19: {e}", file=sys.stderr)
        return 2
    finally:
        if not os.environ.get("VERIF_KEEP"):
            shutil.rmtree(wd, ignore_errors=True)


def write_replay(obj):
    d = os.path.join(vlib.REPLAYS, "C19")
    os.makedirs(d, exist_ok=True)
    path = os.path.join(d, f"{len(os.listdir(d)) + 1}.json")
    obj["property"] = "C19"
    json.dump(obj, open(path, "w"), indent=1)
    return path


if __name__ == "__main__":
    sys.exit(main())

#!/usr/bin/env python3
"""Regenerate the per-property table of DESIGN.md (0.4b) from bin/props.py: invariants, MC / Gen configurations, families."""
import sys, os
sys.path.insert(0, os.path.dirname(os.path.abspath(__file__)))
import props
rows = []
for pid, P in props.PROPS.items():
    if "cmd" in P:
        continue
    inv = " ".join(P["invariants"])
    mcq = ", ".join(m["name"] for m in P["mc"]["quick"])
    mct = ", ".join(m["name"] for m in P["mc"]["thorough"])
    live = ", ".join(m["name"] + " (" + " ".join(l) + ")" for m, l in P.get("live", []))
    gen = ", ".join(g["name"] for g in P.get("gen", {}).get("quick", [])) or "-"
    gent = ", ".join(g["name"] for g in P.get("gen", {}).get("thorough", [])) or "-"
    fam = " ".join(f"{f}:{q}" for f, q, _ in P["families"]) + ("; release: " + " ".join(f"{f}:{q}" for f, q, _ in P["release_families"]) if P.get("release_families") else "")
    dem = ", ".join(d for d, _ in P.get("dev_demo", [])) or "-"
    rows.append(f"| {pid} | {inv} | {mcq} | {mct}{'; fairness: ' + live if live else ''} | {gen} / {gent} | {fam} | {dem} |")
table = ("| | invariants (Props.tla / MC.tla) | MC quick | MC thorough (+ temporal) | Gen quick / thorough | families (scenarios in the quick tier; thorough = x10) | deviation demos |\n"
         "|---|---|---|---|---|---|---|\n" + "\n".join(rows))
if "--update-design" in sys.argv:
    dp = os.path.join(os.path.dirname(os.path.dirname(os.path.abspath(__file__))), "DESIGN.md")
    s = open(dp).read()
    a = s.index("<!-- PROPTABLE:BEGIN -->") + len("<!-- PROPTABLE:BEGIN -->")
    b = s.index("<!-- PROPTABLE:END -->")
    open(dp, "w").write(s[:a] + "\n" + table + "\n" + s[b:])
else:
    print(table)

"""Per-property configuration of bin/check: which MC configurations, invariants and scenario families
decide which listed property (DESIGN 6)."""
import json, os

VERIF = os.path.dirname(os.path.dirname(os.path.abspath(__file__)))
# parallelism: all 16 cores by default; VERIF_JOBS throttles a run that shares the machine with others
JOBS = int(os.environ.get("VERIF_JOBS", "12"))
MC_WORKERS = JOBS
MC_TIMEOUT = {"quick": 900, "thorough": 3400}
GEN_BUDGET = int(os.environ.get("VERIF_GEN_BUDGET", "900"))   # thorough tier: seconds per direction-A enumeration before TLC is stopped
MC_BUDGET = int(os.environ.get("VERIF_MC_BUDGET", "1500"))     # thorough tier: seconds per MC configuration before TLC is stopped
SHARD = 25


def active_dev():
    """Deviations (spec constant Dev) switched on: those of known findings that are not fixed."""
    p = os.path.join(VERIF, "known_findings.json")
    dev = set()
    if os.path.exists(p):
        for e in json.load(open(p)).get("findings", []):
            if e.get("state") == "known" and e.get("deviation"):
                dev.add(e["deviation"])
    return dev


def S(*xs):
    return "{" + ", ".join('"%s"' % x for x in xs) + "}"


def mc(name, clients=("c1", "c2"), maxops=2, ops=("send", "call", "ping", "stop"), scripts="ScriptsCore", cfgs="CfgsCore",
       kinds="InitKindsAddr", faults=(), maxfaults=0, horizon=0, names="NamesSmall", must_cover=(), idle=False, actors=("a1",), extra_actors="NoExtra", extra_handles="NoExtra", types=("1",), profile="debug"):
    return {"name": name, "Profile": '"%s"' % profile, "Actor": S(*actors), "Types": S(*types), "ExtraActors": "<- " + extra_actors, "ExtraHandles": "<- " + extra_handles, "Client": S(*clients), "MaxOps": maxops, "OpSet": S(*ops), "Scripts": "<- " + scripts,
            "Cfgs": "<- " + cfgs, "InitKinds": "<- " + kinds, "Faults": S(*faults), "MaxFaults": maxfaults, "Horizon": horizon, "IdleClock": "TRUE" if idle else "FALSE",
            "Names": "<- " + names, "must_cover": list(must_cover)}


def gen(name, main, clients=("main", "c1", "c2"), maxops=2, ops=("send", "call", "stop"), scripts="ScriptsPlain", horizon=0, idle=False,
        faults=(), maxfaults=0, limit_quick=900, limit_thorough=15000):
    m = mc(name, clients=clients, maxops=maxops, ops=ops, scripts=scripts, horizon=horizon, idle=idle, faults=faults, maxfaults=maxfaults)
    m["MainProg"] = "<- " + main
    m["limit"] = {"quick": limit_quick, "thorough": limit_thorough}
    return m


def gen_cfg(m, invariants):
    lines = ["SPECIFICATION GSpec", "CONSTANTS", "  Dev = " + S(*sorted(active_dev()))]
    for k, v in m.items():
        if k in ("name", "must_cover", "limit"):
            continue
        lines.append(f"  {k} {v}" if str(v).startswith("<-") else f"  {k} = {v}")
    lines.append("INVARIANTS Emit " + " ".join(i for i in invariants if not i.startswith("Term_")))
    lines.append("CHECK_DEADLOCK FALSE")
    return "\n".join(lines) + "\n"


def live_cfg(m, properties):
    lines = ["SPECIFICATION MCLiveSpec", "CONSTANTS", "  Dev = " + S(*sorted(active_dev()))]
    for k, v in m.items():
        if k in ("name", "must_cover", "limit"):
            continue
        lines.append(f"  {k} {v}" if str(v).startswith("<-") else f"  {k} = {v}")
    lines.append("PROPERTIES " + " ".join(properties))
    lines.append("CHECK_DEADLOCK FALSE")
    return "\n".join(lines) + "\n"


def mc_cfg(m, invariants, dev=None):
    dev = active_dev() if dev is None else dev
    lines = ["SPECIFICATION MCSpec", "CONSTANTS", "  Dev = " + S(*sorted(dev))]
    for k, v in m.items():
        if k in ("name", "must_cover"):
            continue
        lines.append(f"  {k} {v}" if str(v).startswith("<-") else f"  {k} = {v}")
    lines.append("INVARIANTS " + " ".join(invariants))
    lines.append("CHECK_DEADLOCK FALSE")
    return "\n".join(lines) + "\n"


SUBMIT = ("SubmitForce", "SubmitWait", "Flushed", "RespReturn", "Dequeue", "HandleBegin", "HandleEnd")
SUBMITW = ("SubmitWait", "Flushed", "RespReturn", "Dequeue", "HandleBegin", "HandleEnd")
C3 = ("c1", "c2", "c3")
STOPOPS = ("send", "call", "stop", "halt", "await", "clone")
AWOPS = ("send", "call", "try_stop", "try_halt", "await_ref", "stop")
HOPS = ("send", "clone", "drop", "downgrade", "upgrade", "sender", "caller")
QOPS = ("stopped", "running", "stop", "await_ref", "clone", "drop", "downgrade")
OWNOPS = ("send", "join", "consume", "consume_sync", "detach", "stop", "to_addr", "drop")
KOPS = ("send", "call", "drop", "upgrade", "clone", "downgrade")

PROPS = {
    "C01": {
        "invariants": ["C01"],
        "mc": {"quick": [mc("Core-addr-2x2", must_cover=SUBMIT), mc("Core-sc-2x2", kinds="InitKindsSC", must_cover=SUBMITW)],
               "thorough": [mc("Core-addr-2x2", must_cover=SUBMIT), mc("Core-addr-b1-2x3", maxops=3, cfgs="CfgsB1", must_cover=SUBMIT), mc("Core-addr-b0-2x2", cfgs="CfgsB0", ops=("send", "call", "ping", "stop")),
                            mc("Core-sc-2x3", maxops=3, kinds="InitKindsSC"), mc("Core-weak-3x2", clients=C3, kinds="InitKindsWeak", cfgs="CfgsB1")]},
        "gen": {"quick": [gen("g-addr-b1-2x2", "Main_Addr2_B1", ops=("send", "call", "ping")), gen("g-ping-b1-2x2", "Main_Addr2_B1", ops=("send", "ping"), scripts="ScriptsCore")], "thorough": [gen("g-addr-b1-2x2", "Main_Addr2_B1", ops=("send", "call", "ping")), gen("g-sc-b1-2x2", "Main_SC_B1", ops=("send", "call"), scripts="ScriptsCore"), gen("g-addr-b0-2x3", "Main_Addr2_B0", maxops=3, ops=("send", "call"))]},
        "families": [("core", 250, 2500), ("timers", 60, 600), ("stream", 60, 600), ("timeout", 100, 1000), ("restart", 150, 1500), ("mix", 120, 1200)],
        "relevant": r'"ev":"h_begin"', "relevant_min": 2,
    },
    "C02": {
        "invariants": ["C02"],
        "mc": {"quick": [mc("Core-addr-2x2", must_cover=SUBMIT), mc("Core-sc-2x2", kinds="InitKindsSC", must_cover=SUBMITW)],
               "thorough": [mc("Core-addr-2x2", must_cover=SUBMIT), mc("Core-addr-b1-2x3", maxops=3, cfgs="CfgsB1"), mc("Core-sc-2x3", maxops=3, kinds="InitKindsSC"),
                            mc("Core-abandon-2x2", ops=("send", "call", "ping", "stop", "abandon"), cfgs="CfgsB1", must_cover=("Abandon",)),
                            mc("Core-abandon-sc-2x2", ops=("send", "call", "drop", "abandon"), cfgs="CfgsB1", kinds="InitKindsSC", must_cover=("Abandon",))]},
        "gen": {"quick": [gen("g-sc-b1-2x2", "Main_SC_B1", ops=("send", "call", "drop"))], "thorough": [gen("g-sc-b1-2x2", "Main_SC_B1", ops=("send", "call", "drop"), scripts="ScriptsCore"), gen("g-cancel-2x2", "Main_Addr2_B1", ops=("send", "call"), faults=("cancel",), maxfaults=1)]},
        "live": [(mc("Live-2x2", ops=("send", "call", "ping", "stop", "drop", "await"), scripts="ScriptsPlain", cfgs="CfgsB1"), ["L_Resolves"]), (mc("Live-sc-2x2", ops=("send", "call", "drop"), scripts="ScriptsPlain", cfgs="CfgsB1", kinds="InitKindsSC"), ["L_Resolves"])],
        "families": [("core", 200, 2000), ("life", 100, 1000), ("fail", 100, 1000), ("awaiters", 100, 1000), ("registry", 100, 1000), ("stream", 100, 1000), ("mix", 120, 1200)],
        "relevant": r'"op":"call"', "relevant_min": 1,
    },
    "C03": {
        "invariants": ["C03"],
        "mc": {"quick": [mc("Life-stop-2x2", ops=("send", "stop", "drop", "halt"), scripts="ScriptsStop", cfgs="CfgsTwo", must_cover=("StopTaken", "MailboxClosed", "StoppedEnd"))],
               "thorough": [mc("Life-stop-2x2", ops=("send", "call", "stop", "drop", "halt"), scripts="ScriptsStop"),
                            mc("Life-stop-b1-2x3", maxops=3, ops=("send", "stop", "drop", "halt"), scripts="ScriptsStop", cfgs="CfgsB1")]},
        "families": [("life", 200, 2000), ("restart", 80, 800), ("stream", 80, 800), ("timeout", 100, 1000), ("fail", 60, 600), ("timers", 100, 1000), ("mix", 120, 1200)],
        "relevant": r'"ev":"cb"', "relevant_min": 3,
    },
    "C04": {
        "invariants": ["C04", "Term_StopHonoured"],
        "mc": {"quick": [mc("Stop-2x2", ops=STOPOPS, scripts="ScriptsStop", cfgs="CfgsB1", must_cover=("StopTaken", "AwaitReturn", "Notify")),
                         mc("Stop-aw-2x2", ops=AWOPS, kinds="InitKindsAW", cfgs="CfgsB1", must_cover=("AwaitReturn",))],
               "thorough": [mc("Stop-2x2", ops=STOPOPS, scripts="ScriptsStop", cfgs="CfgsCore"),
                            mc("Stop-b1-2x3", maxops=3, ops=("send", "call", "stop", "halt", "await"), scripts="ScriptsPlain", cfgs="CfgsB1"),
                            mc("Stop-aw-3x2", clients=C3, ops=AWOPS, kinds="InitKindsAW", cfgs="CfgsB1")]},
        "gen": {"quick": [gen("g-stop-2x2", "Main_Addr2_B1", ops=("send", "call", "stop", "halt", "await"))], "thorough": [gen("g-stop-2x2", "Main_Addr2_B1", ops=("send", "call", "stop", "halt", "await"), scripts="ScriptsStop"), gen("g-aw-2x2", "Main_AW_Unb", ops=("send", "stop", "try_stop", "try_halt", "await_ref"))]},
        "live": [(mc("Live-stop-2x2", ops=("send", "call", "stop", "halt", "await"), scripts="ScriptsStop", cfgs="CfgsB1"), ["L_StopTerminates", "L_Resolves"])],
        "families": [("life", 250, 2500), ("stream", 60, 600), ("timeout", 150, 1500), ("awaiters", 100, 1000), ("mix", 120, 1200)],
        "relevant": r'"op":"(stop|halt|try_stop|try_halt|consume|await|await_ref)"|ctx_stop', "relevant_min": 1,
    },
    "C05": {
        "invariants": ["C05", "Term_WeakInert"],
        "mc": {"quick": [mc("Life-handles-2x2", ops=HOPS, scripts="ScriptsPlain", must_cover=("MailboxClosed", "Upgrade", "DropH", "Convert")),
                         mc("Life-weak-2x2", ops=("send", "call", "drop", "upgrade", "clone", "force_send"), kinds="InitKindsWA", scripts="ScriptsPlain", cfgs="CfgsB1")],
               "thorough": [mc("Life-handles-b1-2x3", maxops=3, ops=HOPS, scripts="ScriptsPlain", cfgs="CfgsB1"),
                            mc("Life-weak-3x2", ops=("send", "call", "drop", "upgrade", "clone"), kinds="InitKindsWeak", scripts="ScriptsPlain", clients=C3, cfgs="CfgsB1"),
                            mc("Stream-drop-2x2", ops=("send", "drop", "feed", "upgrade"), scripts="ScriptsPlain", cfgs="CfgsStream", kinds="InitKindsAW")]},
        "gen": {"quick": [gen("g-drop-2x2", "Main_AW_Unb", ops=("send", "drop", "upgrade", "clone"))], "thorough": [gen("g-drop-2x3", "Main_AW_Unb", maxops=3, ops=("send", "drop", "upgrade", "downgrade"))]},
        "live": [(mc("Live-drop-2x2", ops=("send", "drop", "clone", "downgrade", "upgrade"), scripts="ScriptsPlain", cfgs="CfgsB1", kinds="InitKindsAW"), ["L_DropTerminates"])],
        "families": [("life", 250, 2500), ("timers", 80, 800), ("broker", 50, 500), ("stream", 160, 1600), ("tree", 60, 600), ("registry", 100, 1000), ("tmodrop", 100, 1000), ("mix", 120, 1200)],
        "relevant": r'"op":"(drop|upgrade|downgrade)"', "relevant_min": 1,
    },
    "C06": {
        "invariants": ["C06", "C17_ValueIffGraceful", "C14"],
        "mc": {"quick": [mc("Fail-own-2x2", ops=("send", "call", "await", "join", "stopped"), scripts="ScriptsFail", cfgs="CfgsFailOwn", kinds="InitKindsOwn",
                            faults=("cancel",), maxfaults=1, must_cover=("Cancel", "ScriptStep", "JoinReturn", "AwaitReturn"))],
               "thorough": [mc("Fail-peer-2x2", actors=("a1", "a2"), extra_actors="PeerActors", extra_handles="PeerHandles", ops=("send", "call", "stop"), scripts="ScriptsPeer",
                               cfgs="CfgsB1", faults=("cancel",), maxfaults=1, must_cover=("Cancel", "ScriptStep")),
                            mc("Fail-own-2x3", maxops=3, ops=("send", "call", "join", "stopped"), scripts="ScriptsFail", cfgs="CfgsFailOwn", kinds="InitKindsOwn", faults=("cancel",), maxfaults=1),
                            mc("Fail-3x2", clients=C3, ops=("send", "call", "await", "halt", "upgrade"), scripts="ScriptsFail", cfgs="CfgsFail", kinds="InitKindsAW", faults=("cancel",), maxfaults=2)]},
        "families": [("fail", 300, 3000), ("tree", 80, 800), ("timers", 80, 800), ("registry", 250, 2500), ("awaiters", 60, 600), ("mix", 120, 1200)],
        "relevant": r'"how":"panic"|"ev":"cancel"|"e":"err"|h_abandon', "relevant_min": 1,
    },
    "C07": {
        "invariants": ["C07", "C03"],
        "mc": {"quick": [mc("Restart-1x3", clients=("c1",), maxops=3, ops=("send", "call", "restart"), scripts="ScriptsRestart", cfgs="CfgsStrat2", must_cover=("RestartTaken", "RestartStopped", "RestartRefresh", "RestartStarted")),
                         mc("Restart-2x2", ops=("send", "restart"), scripts="ScriptsPlain", cfgs="CfgsStrat2", must_cover=("RestartTaken", "RestartRefresh"))],
               "thorough": [mc("Restart-2x3", maxops=3, ops=("call", "restart", "stop"), scripts="ScriptsRestart", cfgs="CfgsStrat"),
                            mc("Restart-3x2", clients=C3, ops=("call", "restart"), scripts="ScriptsRestart", cfgs="CfgsStrat", kinds="InitKindsSC")]},
        "dev_demo": [("D3", mc("Timers-race-1x1", clients=("c1",), maxops=1, ops=("send", "stop", "drop"), scripts="ScriptsTimers", cfgs="CfgsTimersQ", horizon=4))],
        "families": [("restart", 250, 2500), ("timers", 150, 1500), ("rstimers", 100, 1000), ("broker", 80, 800), ("mix", 120, 1200)],
        "relevant": r'"op":"restart"|ctx_restart', "relevant_min": 1,
    },
    "C08": {
        "invariants": ["C08", "Term_RegNoHang", "C14"],
        "mc": {"quick": [mc("Reg-2x2", actors=("a1", "r1", "r2"), ops=("from_registry", "register", "unregister", "try_from_registry", "already_running", "stop"),
                            scripts="ScriptsPlain", cfgs="CfgsSvc", names="NamesMore", must_cover=("RegIssue", "RegBody", "RegPingReturn", "TryFromRegistry")),
                         mc("Reg-stop-2x2", actors=("a1", "r1", "r2"), ops=("from_registry", "replace", "stop", "send", "already_running"),
                            scripts="ScriptsStop", cfgs="CfgsSvc", names="NamesMore")],
               "thorough": [mc("Reg-release-2x2", actors=("a1", "r1", "r2"), ops=("from_registry", "register", "unregister", "try_from_registry", "already_running", "stop"),
                               scripts="ScriptsPlain", cfgs="CfgsSvc", names="NamesMore", profile="release", must_cover=("RegIssue", "RegBody", "TryFromRegistry")),
                            mc("Reg-2x3", maxops=3, actors=("a1", "r1", "r2", "r3"), ops=("from_registry", "register", "unregister", "stop"),
                               scripts="ScriptsPlain", cfgs="CfgsSvc", names="NamesMore"),
                            mc("Reg-3x2", clients=C3, actors=("a1", "r1", "r2", "r3"), ops=("from_registry", "unregister", "stop"),
                               scripts="ScriptsPlain", cfgs="CfgsSvc", names="NamesMore")]},
        "dev_demo": [("D1", mc("Reg-2x2", actors=("a1", "r1", "r2"), ops=("from_registry", "register", "unregister", "stop"), scripts="ScriptsPlain", cfgs="CfgsSvc", names="NamesMore")),
                     ("D4", mc("Reg-2x2", actors=("a1", "r1", "r2"), ops=("from_registry", "already_running", "stop"), scripts="ScriptsPlain", cfgs="CfgsSvc", names="NamesMore"))],
        "families": [("registry", 300, 3000), ("mix", 120, 1200)],
        "release_families": [("registry", 100, 1000)],
        "relevant": r'"op":"(from_registry|setup|register|replace|unregister|try_from_registry|already_running)"', "relevant_min": 2,
    },
    "C09": {
        "invariants": ["C09", "Term_WeakInert", "Term_RegNoHang"],
        "mc": {"quick": [mc("Broker-q-2x2", actors=("a1", "a2", "r1"), extra_actors="SubActors", extra_handles="SubHandles", ops=("publish", "send", "drop"),
                            scripts="ScriptsPub", cfgs="CfgsSub1", must_cover=("RegIssue", "RegBody", "RegPingReturn", "ScriptStep", "HandleBegin"))],
               "thorough": [mc("Broker-2x2", actors=("a1", "a2", "r1"), extra_actors="SubActors", extra_handles="SubHandles", ops=("publish", "send", "drop"),
                               scripts="ScriptsBroker", cfgs="CfgsSub"),
                            mc("Broker-2x3", maxops=3, actors=("a1", "a2", "r1"), extra_actors="SubActors", extra_handles="SubHandles", ops=("publish", "drop"),
                               scripts="ScriptsPub", cfgs="CfgsSub1")]},
        "families": [("broker", 300, 3000), ("mix", 120, 1200)],
        "release_families": [("broker", 60, 600)],
        "relevant": r'"src":"broker"', "relevant_min": 1,
    },
    "C10": {
        "invariants": ["C10", "Term_NoTimerLeak", "Term_ExactlyK", "Term_WeakInert"],
        "mc": {"quick": [mc("Timers-idle-1x1", clients=("c1",), maxops=1, ops=("send", "stop", "drop"), scripts="ScriptsPlain", cfgs="CfgsTimers", horizon=6, idle=True,
                            must_cover=("TimerStart", "TimerFire", "TimerFlushed", "TimerEnd", "Advance")),
                         mc("Timers-race-1x1", clients=("c1",), maxops=1, ops=("send", "stop", "drop"), scripts="ScriptsTimers", cfgs="CfgsTimersQ", horizon=4,
                            must_cover=("TimerFire", "TimerEnd", "Advance", "RestartRefresh"))],
               "thorough": [mc("Timers-race-1x2", clients=("c1",), maxops=2, ops=("send", "stop", "drop"), scripts="ScriptsTimers", cfgs="CfgsTimersQ", horizon=4),
                            mc("Timers-race-1x1", clients=("c1",), maxops=1, ops=("send", "stop", "drop", "call"), scripts="ScriptsTimers", cfgs="CfgsTimers", horizon=5),
                            mc("Timers-b0-1x2", clients=("c1",), maxops=2, ops=("send", "call", "stop"), scripts="ScriptsPlain", cfgs="CfgsTimers0", horizon=5),
                            mc("Timers-idle-1x2", clients=("c1",), maxops=2, ops=("send", "stop", "drop"), scripts="ScriptsPlain", cfgs="CfgsTimers", horizon=8, idle=True),
                            mc("Timers-cancel-1x2", clients=("c1",), maxops=2, ops=("send", "stop"), scripts="ScriptsFail", cfgs="CfgsTimers", horizon=4, faults=("cancel",), maxfaults=1)]},
        "gen": {"quick": [gen("g-timer-2x1", "Main_Addr2_Timer", maxops=1, ops=("send", "stop", "drop"), horizon=4)], "thorough": [gen("g-timer-2x2", "Main_Addr2_Timer", ops=("send", "stop", "drop"), horizon=4)]},
        "families": [("timers", 300, 3000), ("stream", 150, 1500), ("timeout", 120, 1200), ("rstimers", 80, 800), ("mix", 120, 1200)],
        "relevant": r'timer_fire', "relevant_min": 1,
    },
    "C11": {
        "invariants": ["C11", "C02"],
        "mc": {"quick": [mc("Timeout-1x3", clients=("c1",), maxops=3, ops=("send", "call"), scripts="ScriptsSleep", cfgs="CfgsTmo", horizon=8, must_cover=("TimeoutFire", "Advance", "HandleEnd")),
                         mc("Timeout-2x1", maxops=1, ops=("send", "call"), scripts="ScriptsSleep2", cfgs="CfgsTmo", horizon=8, must_cover=("TimeoutFire", "Advance", "HandleEnd")),
                         mc("NoTimeout-1x3", clients=("c1",), maxops=3, ops=("send", "call"), scripts="ScriptsSleep", cfgs="CfgsNoTmo", horizon=8, must_cover=("Advance", "HandleEnd"))],
               "thorough": [mc("Timeout-2x2", ops=("send", "call"), scripts="ScriptsSleep", cfgs="CfgsTmo", horizon=8),
                            mc("Timeout-1x4", clients=("c1",), maxops=4, ops=("send", "call", "stop"), scripts="ScriptsSleep2", cfgs="CfgsTmo", horizon=12),
                            mc("NoTimeout-2x2", ops=("send", "call"), scripts="ScriptsSleep", cfgs="CfgsNoTmo", horizon=8)]},
        "gen": {"quick": [gen("g-tmo-2x1", "Main_Addr2_Tmo", maxops=1, ops=("send", "call"), scripts="ScriptsSleep", horizon=6)], "thorough": [gen("g-tmo-2x2", "Main_Addr2_Tmo", ops=("send", "call"), scripts="ScriptsSleep", horizon=8)]},
        "families": [("timeout", 300, 3000), ("tmodrop", 80, 800), ("mix", 120, 1200)],
        "relevant": r'h_abandon|"e":"sleep"', "relevant_min": 1,
    },
    "C12": {
        "invariants": ["C12"],
        "mc": {"quick": [mc("Core-addr-2x2", must_cover=SUBMIT), mc("Core-b-2x2", kinds="InitKindsSC", cfgs="CfgsB1", ops=("send", "call", "stop"))],
               "thorough": [mc("Core-addr-2x2", cfgs="CfgsCore2", must_cover=SUBMIT), mc("Core-addr-b1-2x3", maxops=3, cfgs="CfgsB1"), mc("Core-addr-b0-2x2", cfgs="CfgsB0", ops=("send", "call", "ping", "stop")),
                            mc("Core-b-3x2", clients=C3, kinds="InitKindsSC", cfgs="CfgsB1", ops=("send", "call", "stop")),
                            mc("Stream-send-2x2", ops=("send", "stop", "feed"), scripts="ScriptsPlain", cfgs="CfgsStream")]},
        "gen": {"quick": [gen("g-addr-b0-2x2", "Main_Addr2_B0", ops=("send", "call", "stop"))], "thorough": [gen("g-addr-b0-2x3", "Main_Addr2_B0", maxops=3, ops=("send", "call")), gen("g-sc-b1-2x3", "Main_SC_B1", maxops=3, ops=("send", "call"))]},
        "live": [(mc("Live-send-2x2", ops=("send", "call", "stop"), scripts="ScriptsPlain", cfgs="CfgsB1", kinds="InitKindsSC"), ["L_SendReturns"]), (mc("Live-send0-2x2", ops=("send", "call", "drop"), scripts="ScriptsPlain", cfgs="CfgsCore"), ["L_SendReturns"])],
        "families": [("core", 250, 2500), ("stream", 100, 1000), ("mix", 120, 1200)],
        "relevant": r'"op":"send"', "relevant_min": 1,
    },
    "C13": {
        "invariants": ["C13", "C04", "Term_StopHonoured", "Term_WeakInert"],
        "mc": {"quick": [mc("Stream-2x2", ops=("send", "stop", "drop", "feed", "end_stream"), scripts="ScriptsPlain", cfgs="CfgsStream",
                            must_cover=("StreamItem", "StreamDone", "FinishedEnd", "StreamFeed", "StopTaken", "MailboxClosed"))],
               "thorough": [mc("Stream-2x3", maxops=3, ops=("send", "call", "stop", "drop", "feed", "end_stream", "await"), scripts="ScriptsStop", cfgs="CfgsStream")]},
        "families": [("stream", 300, 3000), ("mix", 120, 1200)],
        "relevant": r'"src":"stream"|"name":"fb"', "relevant_min": 1,
    },
    "C14": {
        "invariants": ["C14"],
        "mc": {"quick": [mc("Query-2x3", maxops=3, ops=QOPS, scripts="ScriptsPlain", cfgs="CfgsUnb", must_cover=("Query", "AwaitReturn", "StopTaken"))],
               "thorough": [mc("Query-3x3", maxops=3, clients=C3, ops=QOPS, scripts="ScriptsPlain", cfgs="CfgsUnb", kinds="InitKindsAW")]},
        "dev_demo": [("D1", mc("Query-2x3", maxops=3, ops=QOPS, scripts="ScriptsPlain", cfgs="CfgsUnb"))],
        "families": [("life", 200, 2000), ("registry", 150, 1500), ("fail", 100, 1000), ("awaiters", 80, 800), ("stream", 100, 1000), ("mix", 120, 1200)],
        "relevant": r'"op":"(stopped|running|try_from_registry|already_running)"', "relevant_min": 1,
    },
    "C15": {
        "invariants": ["C15"],
        "mc": {"quick": [mc("Kinds-2x2", ops=KOPS, scripts="ScriptsStop", cfgs="CfgsUnb", kinds="InitKindsCaller", must_cover=("Upgrade", "ScriptStep", "DropH"))],
               "thorough": [mc("Kinds-2x3", maxops=3, ops=KOPS, scripts="ScriptsStop", cfgs="CfgsUnb", kinds="InitKindsCaller"), 
                            mc("Kinds-sc-2x3", maxops=3, ops=KOPS, scripts="ScriptsRestart", cfgs="CfgsUnb", kinds="InitKindsSC")]},
        "dev_demo": [("D2", mc("Kinds-2x2", ops=KOPS, scripts="ScriptsStop", cfgs="CfgsUnb", kinds="InitKindsCaller"))],
        "families": [("life", 250, 2500), ("timers", 80, 800), ("restart", 80, 800), ("stream", 100, 1000), ("broker", 60, 600), ("timeout", 100, 1000), ("mix", 120, 1200)],
        "relevant": r'"op":"(caller|sender|upgrade|weak_caller|weak_sender)"|ctx_stop', "relevant_min": 1,
    },
    "C16": {
        "invariants": ["C16", "Term_WeakInert", "C05"],
        "mc": {"quick": [mc("Tree-1x2", clients=("c1",), actors=("a1", "a2", "a3"), extra_actors="TreeActors", extra_handles="TreeHandles1", ops=("send", "stop", "drop"), scripts="ScriptsTree",
                            cfgs="CfgsParent", must_cover=("ScriptStep", "MailboxClosed", "HandleBegin")),
                         mc("Flat-2x1", maxops=1, actors=("a1", "a2"), extra_actors="FlatActors", extra_handles="FlatHandles", ops=("send", "stop", "drop"), scripts="ScriptsTree", cfgs="CfgsParent")],
               "thorough": [mc("Tree-1x3", maxops=3, clients=("c1",), actors=("a1", "a2", "a3"), extra_actors="TreeActors", extra_handles="TreeHandles1", ops=("send", "stop", "drop", "restart"), scripts="ScriptsTree", cfgs="CfgsParent"),
                            mc("Tree-cancel-1x2", clients=("c1",), actors=("a1", "a2", "a3"), extra_actors="TreeActors", extra_handles="TreeHandles1", ops=("send", "stop", "drop"), scripts="ScriptsTree", cfgs="CfgsParent", faults=("cancel",), maxfaults=1)]},
        "families": [("tree", 300, 3000), ("mix", 120, 1200)],
        "relevant": r'"e":"(add_child|register_bc|register_bc2|broadcast_\w+)"', "relevant_min": 1,
    },
    "C17": {
        "invariants": ["C17", "C04_AnnounceAfter"],
        "mc": {"quick": [mc("Own-2x3", maxops=3, ops=OWNOPS, scripts="ScriptsPlain", cfgs="CfgsOwn", kinds="InitKindsOwn", must_cover=("JoinBegin", "JoinReturn", "Detach"))],
               "thorough": [mc("Own-3x3", maxops=3, clients=C3, ops=OWNOPS, scripts="ScriptsStop", cfgs="CfgsOwn", kinds="InitKindsOwn"),
                            mc("Own-abandon-2x3", maxops=3, ops=OWNOPS + ("abandon",), scripts="ScriptsPlain", cfgs="CfgsOwn", kinds="InitKindsOwn", must_cover=("Abandon",))]},
        "gen": {"quick": [gen("g-own-2x2", "Main_Own_B1", ops=("send", "join", "consume", "stop", "detach"))], "thorough": [gen("g-own-2x3", "Main_Own_B1", maxops=3, ops=("send", "join", "consume", "stop", "detach", "drop"))]},
        "families": [("life", 250, 2500), ("fail", 100, 1000), ("stream", 100, 1000), ("timeout", 200, 2000), ("restart", 100, 1000), ("awaiters", 100, 1000), ("mix", 120, 1200)],
        "relevant": r'"op":"(join|consume|consume_sync|detach)"', "relevant_min": 1,
    },
}

PROPS["C18"] = {"cmd": "bin/rtcheck.py", "technique": "TLA+ spec (spec/Outcome.tla over spec/Hannibal.tla): TLC enumerates the outcome set of each program; outcomes observed on the three real runtimes must be members"}
PROPS["C19"] = {"cmd": "bin/typecat.py", "technique": "TLA+ model of the API's static protocol (spec/Types.tla): TLC enumerates the catalogue of well/ill-typed programs, rustc validates every case"}

HOOK_COMMITS = ["ddf086f"]
DEFAULT_TEXT = ("Bounded exhaustive model checking of the property's invariants on the explicit TLA+ specification (all client programs over "
                "the operation alphabet, all interleavings, within the listed constants), bound to the code by validating traces of seeded random "
                "programs/schedules executed on the real crate against the same specification, event by event.")
LEVEL_TEXT = {
    "C18": "Outcome-level conformance: for every program of a family covering all 13 spawn entry points TLC enumerates, on the same specification under free "
           "interleaving, the set of terminal outcomes; the outcome observed on each real runtime (tokio, async-std, smol; harness-rt built three times, "
           "no scheduler shim) must be a member. Step-level trace validation is not sound on multi-threaded runtimes, hence the coarser binding.",
    "C19": "TLC explores the builder's type-state LTS (all method chains up to a bound) and the entry-point -> required-facts table under every environment "
           "with at most one fact missing; each enumerated case is compiled by rustc against the freshly built crate: well-typed twins must compile, "
           "ill-typed programs must be rejected with an error of the predicted class. A catalogue, not a proof about programs outside it.",
}
NOT_YET = {}

#!/bin/sh
# bin/thoroughcopy.sh <props...>: run the thorough tier of the given properties in an isolated copy, log wall time and result
E=/tmp/ev/T${TAG:-}
rm -rf $E; mkdir -p $E
rsync -a --exclude work --exclude replays --exclude .git /verif/ $E/verif/
git clone -q /repo $E/repo
mkdir -p $E/verif/work
export VERIF_REPO=$E/repo VERIF_JOBS=${VERIF_JOBS:-8}
rm -f $E/verif/repo-link
for p in "$@"; do
  s=$(date +%s)
  out=$(cd $E/verif && bin/check $p --tier thorough 2>&1 | tail -3 | tr '\n' ' ')
  echo "$p $(( $(date +%s) - s ))s $out" >> /verif/work/thorough.log
done
echo DONE >> /verif/work/thorough.log
rm -rf $E

"""Shared machinery of the /verif checks: build the harness, generate scenarios, run them on the
real crate, validate the recorded traces with TLC against spec/Trace.tla, run the bounded
model-checking configurations, and write verdicts / evidence.

Exit codes of checks: 0 = property held on everything explored, 1 = VIOLATION (line printed, replay
file written), 2 = tool error / timeout (never a VIOLATION line)."""
import json, os, random, re, shutil, subprocess, sys, time, hashlib
from concurrent.futures import ThreadPoolExecutor

VERIF = os.path.dirname(os.path.dirname(os.path.abspath(__file__)))
SPEC = os.path.join(VERIF, "spec")
HARNESS = os.path.join(VERIF, "harness")
WORK = os.path.join(VERIF, "work")
REPLAYS = os.path.join(VERIF, "replays")
EVIDENCE = os.environ.get("VERIF_EVIDENCE_DIR") or os.path.join(VERIF, "evidence")   # (runs against seeded changes write elsewhere)
TLA_CP = "/opt/veriftools/tla/tla2tools.jar:/opt/veriftools/tla/CommunityModules-deps.jar"
# the repository under verification: /repo, unless a development run points a scratch copy of /verif at a scratch copy
REPO = os.environ.get("VERIF_REPO", "/repo")
_link = os.path.join(VERIF, "repo-link")
if os.path.realpath(_link) != os.path.realpath(REPO) or not os.path.islink(_link):
    try:
        if os.path.islink(_link) or os.path.exists(_link):
            os.remove(_link)
        os.symlink(REPO, _link)
    except OSError:
        pass


class ToolError(Exception):
    pass


def sh(cmd, cwd=None, env=None, timeout=None):
    e = dict(os.environ)
    if env:
        e.update(env)
    try:
        p = subprocess.run(cmd, cwd=cwd, env=e, stdout=subprocess.PIPE, stderr=subprocess.STDOUT, timeout=timeout, text=True)
    except subprocess.TimeoutExpired as ex:
        raise ToolError(f"timeout after {timeout}s: {' '.join(cmd)[:200]}") from ex
    return p.returncode, p.stdout


# ------------------------------------------------------------------------------------------------
# harness

def build_harness(release=False):
    """(Re)build the harness against /repo's current working tree, hooks enabled.  release=True: the release profile
    (no debug_assert!: from_registry does not ping a fresh instance under the registry lock)."""
    lock = os.path.join(HARNESS, "Cargo.lock")
    if not os.path.exists(lock):
        shutil.copy(os.path.join(REPO, "Cargo.lock"), lock)
    cmd = ["cargo", "build", "--offline", "--quiet"] + (["--release"] if release else [])
    rc, out = sh(cmd, cwd=HARNESS, env={"CARGO_NET_OFFLINE": "true"}, timeout=1500)
    if rc != 0:
        raise ToolError("harness build failed:\n" + out[-4000:])
    return os.path.join(HARNESS, "target", "release" if release else "debug", "hharness")


def run_harness(binary, scenarios, workdir, name):
    os.makedirs(workdir, exist_ok=True)
    sp = os.path.join(workdir, f"{name}.scen.ndjson")
    tp = os.path.join(workdir, f"{name}.trace.ndjson")
    with open(sp, "w") as f:
        for s in scenarios:
            f.write(json.dumps(s) + "\n")
    rc, out = sh([binary, "run", sp, tp], timeout=900)
    if rc != 0:
        raise ToolError(f"harness failed rc={rc}:\n{out[-3000:]}")
    traces = []
    cur = None
    with open(tp) as f:
        for line in f:
            line = line.rstrip("\n")
            if not line:
                continue
            if line.startswith('{"clients"') or '"ev":"reset"' in line[:200]:
                e = json.loads(line)
                if e.get("ev") == "reset":
                    cur = {"sid": e["sid"], "lines": []}
                    traces.append(cur)
            cur["lines"].append(line)
    decs = {}
    with open(tp + ".dec") as f:
        for line in f:
            d = json.loads(line)
            decs[d["id"]] = d["decisions"]
    if len(traces) != len(scenarios):
        raise ToolError(f"harness produced {len(traces)} traces for {len(scenarios)} scenarios")
    for t in traces:
        t["decisions"] = decs.get(t["sid"], [])
        if any('"harness_error"' in l for l in t["lines"]):
            raise ToolError(f"harness error in scenario {t['sid']}")
    return traces


# ------------------------------------------------------------------------------------------------
# TLC

def tlc_cmd(cfg, module, metadir, workers, extra_java=()):
    return ["java", "-XX:+UseParallelGC", *extra_java, "-cp", TLA_CP, "tlc2.TLC", "-workers", str(workers),
            "-metadir", metadir, "-cleanup", "-noGenerateSpecTE", "-config", cfg, module]


def stage_spec(workdir):
    os.makedirs(workdir, exist_ok=True)
    for f in os.listdir(SPEC):
        if f.endswith(".tla"):
            shutil.copy(os.path.join(SPEC, f), os.path.join(workdir, f))


def names_in(traces):
    actors, clients = set(), set()
    for t in traces:
        for l in t["lines"]:
            e = json.loads(l)
            ev = e["ev"]
            if ev == "reset":
                clients.update(e["clients"])
            elif ev == "op_begin" and e["o"]["op"] == "spawn":
                actors.add(e["o"]["a"])
            elif ev in ("cb", "h_begin") and e["task"] not in clients:
                actors.add(e["task"])
            elif ev == "pick" and re.fullmatch(r"[ar]\d+", e["task"]):
                actors.add(e["task"])
    return sorted(actors), sorted(clients)


def tla_set(xs):
    return "{" + ", ".join('"%s"' % x for x in xs) + "}"


TRACE_INVS = ["C01_AtMostOnce", "C01_RealTimeFIFO", "C01_NoOverlap", "C01_Fold", "C02_OwnResult", "C02_Resolves",
              "C03_Order", "C03_HandlersInside", "C03_Graceful", "C03_StartErr",
              "C04_Drain", "C04_NoLate", "C04_StopTerminates", "C04_AnnounceAfter",
              "C05_KeepAlive", "C05_DrainOnDrop", "C05_UpgradeDead", "C06", "C07", "C08", "C09_ExactlyOnce", "C09_Delivered", "C09_CommonOrder", "C09_PublisherOrder", "C09_BrokerNeverFails", "C10", "C11", "C12", "C13", "C10_TicksAfterStreamEnd", "C13_FairSelect", "C14", "C15", "C16", "C17"]


# invariants that speak for more than the property they are named after
INV_PROPS = {"C10_TicksAfterStreamEnd": ["C10", "C13"],
             # a starved mailbox: calls do not resolve (C02), a stop request - also the actor's own - is not honoured and its ticks are not handled (C04, C15); a starved stream: C13
             "C13_FairSelect": ["C13", "C02", "C04", "C05", "C15"]}


def validate_shard(traces, dev, workdir, tag, timeout=1500, profile="debug", stop=None, note=None, max_rounds=12):
    """Validate the concatenation of `traces` with TLC. Returns a list of per-trace results
    (same order): {"ok": True} | {"ok": False, "kind": "reject"|"invariant", ...}."""
    stage_spec(workdir)
    results = [None] * len(traces)
    todo = list(range(len(traces)))
    rounds = 0
    while todo:
        # every divergence costs one more TLC run over the rest of the shard: stop once the verdict is settled (`stop`:
        # enough divergences attributed to the property being checked were seen) or the shard is hopeless
        if (stop is not None and stop()) or rounds >= max_rounds:
            for i in todo:
                results[i] = {"ok": True, "skipped": True}
            break
        rounds += 1
        sub = [traces[i] for i in todo]
        actors, clients = names_in(sub)
        if not actors:
            actors = ["a1"]
        tp = os.path.join(workdir, f"{tag}.r{rounds}.ndjson")
        with open(tp, "w") as f:
            for t in sub:
                f.write("\n".join(t["lines"]) + "\n")
        cfgp = os.path.join(workdir, f"{tag}.r{rounds}.cfg")
        with open(cfgp, "w") as f:
            f.write("SPECIFICATION TSpec\nCONSTANTS\n  Actor = %s\n  Client = %s\n  Dev = %s\n  Profile = \"%s\"\n" % (tla_set(actors), tla_set(clients), tla_set(sorted(dev)), profile))
            f.write("CONSTRAINT Track\nINVARIANTS %s\nPOSTCONDITION Accepted\nCHECK_DEADLOCK FALSE\n" % " ".join(TRACE_INVS))
        md = os.path.join(workdir, f"md_{tag}_{rounds}")
        cmd = tlc_cmd(os.path.basename(cfgp), "Trace.tla", md, 1, ("-Xss1g", "-Xmx3g", "-Dtlc2.tool.queue.IStateQueue=StateDeque"))
        rc, out = sh(cmd, cwd=workdir, env={"TRACE": tp}, timeout=timeout)
        shutil.rmtree(md, ignore_errors=True)
        # map a position in the concatenated file to (index in sub, offset)
        starts = []
        pos = 1
        for t in sub:
            starts.append(pos)
            pos += len(t["lines"])

        def locate(p):
            k = 0
            for j, s in enumerate(starts):
                if s <= p:
                    k = j
            return k, p - starts[k]

        if "No error has been found" in out and "REJECT" not in out:
            for i in todo:
                results[i] = {"ok": True}
            todo = []
            break
        m = re.search(r"Invariant (\w+) is violated", out)
        if m:
            ls = re.findall(r"/\\ l = (\d+)", out)
            p = int(ls[-1]) if ls else 1
            k, off = locate(max(1, p - 1))
            for i in todo[:k]:
                results[i] = {"ok": True}
            results[todo[k]] = {"ok": False, "kind": "invariant", "invariant": m.group(1), "offset": off, "props": INV_PROPS.get(m.group(1), [m.group(1)[:3]])}
            if note:
                note(results[todo[k]])
            todo = todo[k + 1:]
            continue
        m = re.search(r'<<"REJECT", (\d+), "(.*)", "(.*)", "(.*)">>', out)
        if m:
            p = int(m.group(1))
            k, off = locate(p)
            ev = json.loads(m.group(2).encode().decode("unicode_escape")) if m.group(2) else None
            guards = json.loads(m.group(3).encode().decode("unicode_escape"))
            props = json.loads(m.group(4).encode().decode("unicode_escape"))
            for i in todo[:k]:
                results[i] = {"ok": True}
            results[todo[k]] = {"ok": False, "kind": "reject", "offset": off, "event": ev, "guards": sorted(guards), "props": sorted(props)}
            if note:
                note(results[todo[k]])
            todo = todo[k + 1:]
            continue
        m = re.search(r"(Error: .*?)(?:Error: The behavior|$)", out, re.S)
        raise ToolError("TLC trace validation failed unexpectedly:\n" + (m.group(1)[:1500] if m else "") + "\n...\n" + out[-1200:])
    return results


def validate(traces, dev, workdir, shard=30, jobs=8, profile="debug", target=None, enough=3):
    """`target`: the property being decided; once `enough` divergences attributed to it were found the rest is skipped."""
    shards = [list(range(i, min(i + shard, len(traces)))) for i in range(0, len(traces), shard)]
    results = [None] * len(traces)
    hits = [0]

    def note(r):
        if target is not None and target in r.get("props", []):
            hits[0] += 1

    def one(si):
        idx = shards[si]
        if target is not None and hits[0] >= enough:
            return idx, [{"ok": True, "skipped": True} for _ in idx]
        rs = validate_shard([traces[i] for i in idx], dev, os.path.join(workdir, f"sh{si}"), f"s{si}", profile=profile,
                            stop=(lambda: hits[0] >= enough) if target is not None else None, note=note)
        return idx, rs

    with ThreadPoolExecutor(max_workers=jobs) as ex:
        for idx, rs in ex.map(one, range(len(shards))):
            for i, r in zip(idx, rs):
                results[i] = r
    return results


def run_mc(cfg_text, workdir, tag, workers=8, timeout=3000, module="MC.tla", budget=None):
    """Run a bounded model-checking configuration. Returns dict(states, distinct, ok, violated, out).
    `budget` (seconds): a time budget instead of a hard limit - when it is used up TLC is stopped and what it had
    explored until then (breadth-first: every behaviour up to the reported depth) counts, marked `complete: False`."""
    stage_spec(workdir)
    cfgp = os.path.join(workdir, f"{tag}.cfg")
    with open(cfgp, "w") as f:
        f.write(cfg_text)
    md = os.path.join(workdir, f"md_{tag}")
    cmd = tlc_cmd(os.path.basename(cfgp), module, md, workers, ("-Xmx12g",))
    cmd.insert(cmd.index("-workers"), "-coverage")
    cmd.insert(cmd.index("-workers"), "1")
    t0 = time.time()
    complete = True
    if budget:
        try:
            p = subprocess.run(cmd, cwd=workdir, stdout=subprocess.PIPE, stderr=subprocess.STDOUT, timeout=budget, text=True)
            out = p.stdout
        except subprocess.TimeoutExpired as ex:
            out = ex.stdout or ""
            if isinstance(out, bytes):
                out = out.decode(errors="replace")
            complete = False
    else:
        rc, out = sh(cmd, cwd=workdir, timeout=timeout)
    shutil.rmtree(md, ignore_errors=True)
    ms = re.findall(r"(\d[\d,]*) states generated[^\n]*?, (\d[\d,]*) distinct states found", out)
    m = None
    res = {"wall_s": round(time.time() - t0, 1), "out_tail": out[-1500:], "complete": complete}
    if ms:
        res["transitions"] = int(ms[-1][0].replace(",", ""))
        res["states"] = int(ms[-1][1].replace(",", ""))
    dm = re.findall(r"Progress\((\d+)\)", out)
    if dm:
        res["depth_reached"] = int(dm[-1])
    cov = {}
    for mm in re.finditer(r"<A_(\w+) line [^>]*>: (\d+):(\d+)", out):
        cov[mm.group(1)] = int(mm.group(3))       # the last report wins (final statistics)
    res["action_coverage"] = cov
    if m:
        res["transitions"] = int(m.group(1))
        res["states"] = int(m.group(2))
    v = re.search(r"Invariant (\w+) is violated", out)
    res["violated"] = v.group(1) if v else None
    res["ok"] = ("No error has been found" in out) or (not complete and not v and "Error:" not in out)
    if not res["ok"] and not v:
        m2 = re.search(r"(Error: .*?)(?:Error: The behavior|The coverage statistics|$)", out, re.S)
        raise ToolError("TLC model checking failed:\n" + (m2.group(1)[:2000] if m2 else out[-2000:]))
    return res


def run_live(cfg_text, workdir, tag, workers=6, timeout=3000):
    """TLC liveness check (fairness, temporal properties). Returns dict(states, ok, violated)."""
    stage_spec(workdir)
    cfgp = os.path.join(workdir, f"{tag}.cfg")
    with open(cfgp, "w") as f:
        f.write(cfg_text)
    md = os.path.join(workdir, f"md_{tag}")
    t0 = time.time()
    rc, out = sh(tlc_cmd(os.path.basename(cfgp), "MC.tla", md, workers, ("-Xmx10g",)), cwd=workdir, timeout=timeout)
    shutil.rmtree(md, ignore_errors=True)
    m = re.search(r"(\d+) states generated, (\d+) distinct states found", out)
    res = {"name": tag, "wall_s": round(time.time() - t0, 1), "states": int(m.group(2)) if m else 0, "transitions": int(m.group(1)) if m else 0}
    if "Temporal properties were violated" in out:
        res["ok"] = False
        res["violated"] = "temporal"
        res["out_tail"] = out[-1500:]
    elif "No error has been found" in out:
        res["ok"] = True
        res["violated"] = None
    else:
        m2 = re.search(r"(Error: .*?)(?:Error: The behavior|$)", out, re.S)
        raise ToolError("TLC liveness check failed:\n" + (m2.group(1)[:2000] if m2 else out[-2000:]))
    return res


def gen_behaviours(cfg_text, workdir, tag, workers=6, timeout=1800, limit=None, seed=0, budget=None):
    """Direction A: TLC enumerates every run-to-block behaviour of a small configuration (spec/Gen.tla) and prints
    {programs, decisions}; returns them as harness scenarios (plus TLC's state counts)."""
    stage_spec(workdir)
    cfgp = os.path.join(workdir, f"{tag}.cfg")
    with open(cfgp, "w") as f:
        f.write(cfg_text)
    md = os.path.join(workdir, f"md_{tag}")
    complete = True
    if budget:
        # a time budget instead of a hard limit: the behaviours TLC has printed when it is used up are what is replayed
        try:
            p = subprocess.run(tlc_cmd(os.path.basename(cfgp), "Gen.tla", md, workers, ("-Xmx8g",)), cwd=workdir, stdout=subprocess.PIPE,
                               stderr=subprocess.STDOUT, timeout=budget, text=True)
            out = p.stdout
        except subprocess.TimeoutExpired as ex:
            out = ex.stdout or ""
            if isinstance(out, bytes):
                out = out.decode(errors="replace")
            out = out[:out.rfind("\n") + 1]
            complete = False
    else:
        rc, out = sh(tlc_cmd(os.path.basename(cfgp), "Gen.tla", md, workers, ("-Xmx8g",)), cwd=workdir, timeout=timeout)
    shutil.rmtree(md, ignore_errors=True)
    v = re.search(r"Invariant (\w+) is violated", out)
    if v:
        return None, {"violated": v.group(1), "out_tail": out[-1500:]}
    if complete and "No error has been found" not in out:
        m2 = re.search(r"(Error: .*?)(?:Error: The behavior|$)", out, re.S)
        raise ToolError("TLC behaviour generation failed:\n" + (m2.group(1)[:2000] if m2 else out[-2000:]))
    m = re.search(r"(\d+) states generated, (\d+) distinct states found", out)
    beh = []
    for i, mm in enumerate(re.finditer(r'<<"BEHAVIOUR", "(.*)">>', out)):
        b = json.loads(json.loads('"' + mm.group(1) + '"'))
        beh.append(b)
    total = len(beh)
    if limit and total > limit:
        rng = random.Random(f"gen-{tag}-{seed}")
        beh = rng.sample(beh, limit)
    scs = []
    for i, b in enumerate(beh):
        # (after the dictated schedule the executor goes on by itself - a task the specification considers blocked may
        # be runnable; bounded, because a configuration with an interval timer never comes to rest by itself)
        scs.append({"id": f"gen-{tag}-{i}", "seed": 0, "horizon": 1000, "clients": b["prog"], "decisions": b["dec"], "max_steps": len(b["dec"]) + 60})
    return scs, {"states": int(m.group(2)) if m else 0, "transitions": int(m.group(1)) if m else 0, "behaviours": total, "replayed": len(scs), "complete": complete}


# ------------------------------------------------------------------------------------------------
# scenario generation

Y = {"e": "yield", "n": 0, "s": ""}


def eff(e, n=0, s=""):
    return {"e": e, "n": n, "s": s}


COMPAT = {
    "send": ["addr", "owning", "sender", "wsender"], "call": ["addr", "owning", "caller", "wcaller"],
    "ping": ["addr", "owning"], "stop": ["addr"], "halt": ["addr"], "restart": ["addr"],
    "force_send": ["wsender"], "try_stop": ["waddr"], "try_halt": ["waddr"], "await": ["addr"], "await_ref": ["addr"],
    "stopped": ["addr", "waddr"], "running": ["addr"],
    "clone": ["addr", "sender", "caller", "waddr", "wsender", "wcaller"],
    "drop": ["addr", "owning", "sender", "caller", "waddr", "wsender", "wcaller"],
    "downgrade": ["addr", "sender", "caller"], "upgrade": ["waddr", "wsender", "wcaller"],
    "sender": ["addr", "owning"], "caller": ["addr", "owning"], "weak_sender": ["addr", "owning"],
    "weak_caller": ["addr", "owning"], "to_addr": ["owning"], "detach": ["owning"],
    "join": ["owning"], "consume": ["owning"], "consume_sync": ["owning"],
}
for _op in ("stopped", "running", "drop", "ping"):      # (stopping the broker itself is outside C09's quantifier)
    COMPAT[_op] = COMPAT[_op] + ["baddr"]
CONSUMES = {"halt", "await", "drop", "detach", "consume", "consume_sync"}
NEWKIND = {
    ("clone", "addr"): "addr", ("clone", "sender"): "sender", ("clone", "caller"): "caller", ("clone", "waddr"): "waddr",
    ("clone", "wsender"): "wsender", ("clone", "wcaller"): "wcaller",
    ("downgrade", "addr"): "waddr", ("downgrade", "sender"): "wsender", ("downgrade", "caller"): "wcaller",
    ("upgrade", "waddr"): "addr", ("upgrade", "wsender"): "sender", ("upgrade", "wcaller"): "caller",
    ("sender", "addr"): "sender", ("sender", "owning"): "sender", ("caller", "addr"): "caller", ("caller", "owning"): "caller",
    ("weak_sender", "addr"): "wsender", ("weak_sender", "owning"): "wsender",
    ("weak_caller", "addr"): "wcaller", ("weak_caller", "owning"): "wcaller",
    ("to_addr", "owning"): "addr", ("detach", "owning"): "addr",
}


class Prog:
    """Random client program over the spec's operation alphabet, respecting handle kinds."""

    def __init__(self, rng, client, handles, weights, scripts, counter):
        self.rng, self.c, self.h, self.w, self.scripts = rng, client, dict(handles), weights, scripts
        self.polled = set()
        self.types = ["1", "2"]
        self.topics = ["1", "2"]
        self.cancel_p = 0.08
        self.claimable = []       # weak handles that scripts sent earlier will put into the pool: (name, kind)
        self.ops = []
        self.counter = counter
        self.join_d = [0, 0, 1, 2, 3, 5]
        self.acnt = None          # shared counter of actor names, for operations that spawn (spawn_register)

    def fresh(self):
        self.counter[0] += 1
        return f"x{self.counter[0]}"

    def step(self):
        rng = self.rng
        for _ in range(20):
            op = rng.choices(list(self.w.keys()), weights=list(self.w.values()))[0]
            if op == "yield":
                self.ops.append({"op": "yield"})
                return True
            if op == "sleep":
                self.ops.append({"op": "sleep", "d": rng.randint(1, 3)})
                return True
            if op in ("publish", "try_publish"):
                self.ops.append({"op": op, "ty": rng.choice(self.topics)})
                return True
            if op == "claim":
                if not self.claimable:
                    continue
                x, k = self.claimable.pop(0)
                self.ops.append({"op": "claim", "h": x})
                self.h[x] = k
                return True
            if op in ("bpublish", "bsubscribe", "bunsubscribe"):
                bs = [x for x, k in self.h.items() if k == "baddr"]
                subs = [x for x, k in self.h.items() if k in ("addr", "owning")]
                if not bs or (op != "bpublish" and not subs):
                    continue
                o = {"op": op, "h": rng.choice(sorted(bs))}
                if op != "bpublish":
                    o["h2"] = rng.choice(sorted(subs))
                self.ops.append(o)
                return True
            if op == "broker":
                nh = self.fresh()
                self.ops.append({"op": "from_registry", "ty": "B" + rng.choice(self.topics), "nh": nh})
                self.h[nh] = "baddr"
                return True
            if op in ("feed", "end_stream"):
                self.ops.append({"op": op, "a": "a1", "d": rng.randint(1, 3)})
                return True
            if op in ("from_registry", "setup", "unregister", "try_from_registry", "already_running"):
                o = {"op": op, "ty": rng.choice(self.types)}
                if op in ("from_registry", "setup") and rng.random() < self.cancel_p:
                    o["d"] = 4          # a lookup that is given up while it is under way (lock taken, fresh instance being pinged)
                if op in ("from_registry", "unregister", "try_from_registry"):
                    nh = self.fresh()
                    o["nh"] = nh
                    self.h[nh] = "addr"
                self.ops.append(o)
                return True
            if op == "spawn_register":
                # the builder's terminal `.register()`: spawn and register in ONE call (two operations of the
                # specification with nothing in between)
                if self.acnt is None:
                    continue
                self.acnt[0] += 1
                a = f"a{self.acnt[0]}"
                tmp, nh, nh2 = self.fresh(), self.fresh(), self.fresh()
                cfg = {"ty": rng.choice(self.types), "cap": rng.choice([-1, -1, 1]), "strat": rng.choice(["restart", "recreate", "none"]),
                       "pscr": [Y] * rng.choice([0, 1]), "sscr": [[Y] * rng.choice([0, 1]) + ([eff("subscribe", 1)] if rng.random() < 0.3 else [])]}
                self.ops.append({"op": "spawn", "a": a, "nh": tmp, "cfg": cfg, "entry": "builder_register"})
                self.ops.append({"op": "register", "h": tmp, "nh": nh, "nh2": nh2})
                self.h[nh] = "addr"
                self.h[nh2] = "addr"
                return True
            if op in ("register", "replace"):
                cands = [x for x, k in self.h.items() if k == "addr"]
                if not cands:
                    continue
                x = rng.choice(sorted(cands))
                o = {"op": op, "h": x, "nh2": self.fresh()}
                self.h[o["nh2"]] = "addr"
                del self.h[x]
                if op == "register":
                    o["nh"] = self.fresh()
                    self.h[o["nh"]] = "addr"
                    if x in self.polled:
                        self.polled.add(o["nh"])
                self.ops.append(o)
                return True
            cands = [x for x, k in self.h.items() if k in COMPAT[op]]
            if not cands:
                continue
            x = rng.choice(sorted(cands))
            k = self.h[x]
            o = {"op": op, "h": x}
            if op == "join":
                o["d"] = rng.choice(self.join_d)
                if o["d"] == 5:
                    # join future made, OwningAddr detached into a plain Addr (nh), future awaited
                    nh = self.fresh()
                    o["nh"] = nh
                    o["to"] = self.c
                    self.h[nh] = "addr"
                    del self.h[x]
                    self.ops.append(o)
                    return True
            elif op in ("send", "call", "ping", "await_ref", "try_halt", "halt", "await", "consume") and rng.random() < self.cancel_p:
                o["d"] = rng.choice([1, 1, 4])          # poll once (or up to three times), drop if still pending
            if op in ("send", "call", "force_send"):
                o["scr"] = self.scripts() if callable(self.scripts) else rng.choice(self.scripts)
            if (op, k) in NEWKIND:
                if k == "addr" and op in ("sender", "caller", "weak_sender", "weak_caller", "downgrade"):
                    o["d"] = rng.choice([0, 0, 1, 2])      # the conversion method, or the equivalent From impl (by reference / by value)
                nh = self.fresh()
                o["nh"] = nh
                o["to"] = self.c
                self.h[nh] = NEWKIND[(op, k)]
                if x in self.polled and NEWKIND[(op, k)] in ("addr", "waddr"):
                    self.polled.add(nh)
            if op == "await_ref":
                self.polled.add(x)
            if op in CONSUMES:
                del self.h[x]
            self.ops.append(o)
            return True
        return False

    def run(self, n, drop_all=False, probes=False):
        for _ in range(n):
            if not self.step():
                break
        if probes:
            # what the weak handles say in the end, whatever has happened to the actor meanwhile
            for x, k in sorted(self.h.items()):
                if k == "waddr":
                    self.ops += [{"op": "yield"}, {"op": "stopped", "h": x}, {"op": "upgrade", "h": x, "nh": self.fresh(), "to": self.c}, {"op": "stopped", "h": x}]
                elif k in ("wsender", "wcaller"):
                    self.ops += [{"op": "yield"}, {"op": "upgrade", "h": x, "nh": self.fresh(), "to": self.c}]
        if drop_all:
            # let go of everything at the end: the actor's fate is then decided by who else holds it
            for x, k in sorted(self.h.items()):
                if k != "baddr":
                    self.ops.append({"op": "drop", "h": x})
            self.h = {x: k for x, k in self.h.items() if k == "baddr"}
        return self.ops


def setup_main(rng, cfg, clients_kinds, keep_root, entry="builder"):
    """main spawns a1 and hands one handle of the requested kind to every client."""
    if entry == "builder":
        entry = "builder:" + str(rng.randrange(4))
    ops = [{"op": "spawn", "a": "a1", "nh": "h0", "cfg": cfg, "entry": entry}]
    root_kind = "owning" if cfg.get("owning") else "addr"
    handles = {}
    conv = {"addr": "clone" if root_kind == "addr" else "to_addr", "sender": "sender", "caller": "caller",
            "wsender": "weak_sender", "wcaller": "weak_caller"}
    for c, kind in clients_kinds.items():
        hn = f"h_{c}"
        if kind == "owning":
            continue
        if kind == "waddr":
            if root_kind == "addr":
                ops.append({"op": "downgrade", "h": "h0", "nh": hn, "to": c})
            else:
                ops.append({"op": "to_addr", "h": "h0", "nh": hn + "t", "to": "main"})
                ops.append({"op": "downgrade", "h": hn + "t", "nh": hn, "to": c})
                ops.append({"op": "drop", "h": hn + "t"})
        else:
            ops.append({"op": conv[kind], "h": "h0", "nh": hn, "to": c})
        handles.setdefault(c, {})[hn] = kind
    owner = [c for c, k in clients_kinds.items() if k == "owning"]
    if owner:
        ops.append({"op": "give", "h": "h0", "to": owner[0]})
        handles.setdefault(owner[0], {})["h0"] = "owning"
    elif not keep_root:
        ops.append({"op": "drop", "h": "h0"})
    return ops, handles


SCRIPTS_CORE = [[], [], [Y], [Y, Y]]


def scenario_id(family, seed, i):
    return f"{family}-{seed}-{i}"

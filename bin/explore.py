#!/usr/bin/env python3
"""Development driver: run N scenarios of a family on the real crate and validate the traces."""
import sys, os, json, collections
sys.path.insert(0, os.path.dirname(os.path.abspath(__file__)))
import vlib, families

fam, seed, n = sys.argv[1], int(sys.argv[2]), int(sys.argv[3])
dev = set(sys.argv[4].split(",")) if len(sys.argv) > 4 and sys.argv[4] else set()
profile = os.environ.get("VERIF_PROFILE", "debug")
binary = vlib.build_harness(release=(profile == "release"))
scs = [families.FAMILIES[fam](seed, i) for i in range(n)]
wd = os.path.join(vlib.WORK, f"explore-{fam}-{seed}")
traces = vlib.run_harness(binary, scs, wd, "x")
res = vlib.validate(traces, dev, wd, shard=25, jobs=12, profile=profile)
bad = [(sc, t, r) for sc, t, r in zip(scs, traces, res) if not r["ok"]]
print(f"{len(scs)} scenarios, {sum(len(t['lines']) for t in traces)} events, {len(bad)} rejected")
agg = collections.Counter()
for sc, t, r in bad:
    agg[(r["kind"], tuple(r.get("guards", [])) or r.get("invariant"))] += 1
for k, v in agg.most_common():
    print(v, k)
for sc, t, r in bad[:3]:
    print("----", sc["id"], r)
    off = r.get("offset", 0)
    for l in t["lines"][max(0, off - 12): off + 2]:
        print("   ", l[:260])
    open(os.path.join(wd, f"bad-{sc['id']}.json"), "w").write(json.dumps({"scenario": sc, "result": r, "trace": t["lines"], "decisions": t["decisions"]}))

#!/usr/bin/env python3
"""Print the table of seeded changes (seeded/*/meta.json) for DESIGN.md section 0.8."""
import json, glob, os, re
rows = []
for d in sorted(glob.glob(os.path.join(os.path.dirname(os.path.dirname(os.path.abspath(__file__))), "seeded", "*"))):
    mp = os.path.join(d, "meta.json")
    if not os.path.exists(mp):
        rows.append((os.path.basename(d), "?", "not evaluated yet", "", ""))
        continue
    m = json.load(open(mp))
    notes = open(os.path.join(d, "notes.md")).read() if os.path.exists(os.path.join(d, "notes.md")) else ""
    first = next((l.strip("# *-").strip() for l in notes.splitlines() if len(l.strip()) > 25), "")[:110]
    own = "yes" if m.get("detected_by_own_check") else "NO"
    guards = ""
    for c in m.get("checks", []):
        g = re.search(r"guards=(\[[^\]]*\])|invariant=(\w+)", c)
        if c.startswith(f"[{m['property']} ") and g:
            guards = (g.group(1) or "") + (g.group(2) if g.group(2) and g.group(2) != "None" else "")
    rows.append((m["dir"], "confirmed" if m.get("confirmed") else "NOT confirmed", first, own + (" " + guards if guards else ""), ",".join(m.get("other_checks_alarmed", []))))
import sys
table = "| id | status | change | caught by its own check | other checks alarmed |\n|---|---|---|---|---|\n" + "\n".join("| " + " | ".join(r) + " |" for r in rows)
n_conf = sum(1 for r in rows if r[1] == "confirmed")
n_own = sum(1 for r in rows if r[1] == "confirmed" and r[3].startswith("yes"))
summary = f"\n\n{n_conf} confirmed changes, {n_own} caught by the check of their own property."
if "--update-design" in sys.argv:
    dp = os.path.join(os.path.dirname(os.path.dirname(os.path.abspath(__file__))), "DESIGN.md")
    s = open(dp).read()
    a = s.index("<!-- SEEDTABLE:BEGIN -->") + len("<!-- SEEDTABLE:BEGIN -->")
    b = s.index("<!-- SEEDTABLE:END -->")
    open(dp, "w").write(s[:a] + "\n" + table + summary + "\n" + s[b:])
else:
    print(table + summary)

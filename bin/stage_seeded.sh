#!/bin/sh
# stage_seeded.sh <Cxx>: copy what a mutant agent left in /tmp/mut/Cxx/_out into /verif/seeded/Cxx-k/
p=$1
for k in 1 2 3 4 5 6 7 8 9 10 11 12; do
  if [ -f /tmp/mut/$p/_out/change$k.diff ]; then
    d=/verif/seeded/$p-$k; mkdir -p $d
    cp /tmp/mut/$p/_out/change$k.diff $d/patch.diff
    cp /tmp/mut/$p/_out/demo$k.rs $d/demo.rs
    [ -f /tmp/mut/$p/_out/notes$k.md ] && cp /tmp/mut/$p/_out/notes$k.md $d/notes.md
    echo staged $d
  fi
done

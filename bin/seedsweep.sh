#!/bin/sh
# bin/seedsweep.sh <first> <last>: every quick check with seeds first..last on the unchanged tree, in an isolated copy
E=/tmp/ev/S
rm -rf $E; mkdir -p $E
rsync -a --exclude work --exclude replays --exclude .git /verif/ $E/verif/
git clone -q /repo $E/repo
mkdir -p $E/verif/work
export VERIF_REPO=$E/repo VERIF_JOBS=${VERIF_JOBS:-6}
rm -f $E/verif/repo-link
for seed in $(seq $1 $2); do
  for p in C01 C02 C03 C04 C05 C06 C07 C08 C09 C10 C11 C12 C13 C14 C15 C16 C17 C18 C19; do
    out=$(cd $E/verif && VERIF_SEED=$seed bin/check $p --tier quick 2>&1 | tail -2 | tr '\n' ' ')
    echo "seed=$seed $out" >> /verif/work/seedsweep.log
    case "$out" in *VIOLATION*|*TOOL-ERROR*) mkdir -p /verif/work/sweepfail; cp -r $E/verif/replays /verif/work/sweepfail/seed$seed-$p 2>/dev/null;; esac
  done
done
echo DONE >> /verif/work/seedsweep.log
rm -rf $E

#!/bin/sh
# bin/benignscreen.sh <Bk> <family>... : apply a behaviour-preserving change to /repo, run families, undo (expect 0 rejected)
id=$1; shift
git -C /repo diff --quiet || { echo "/repo dirty"; exit 2; }
git -C /repo apply /verif/benign/$id/patch.diff || exit 2
trap 'git -C /repo checkout -- . ; git -C /repo clean -fdq src' EXIT
for fam in "$@"; do echo -n "== $id x $fam: "; /verif/bin/explore.py $fam 0 ${N:-150} 2>&1 | grep -v "^    " | cut -c1-300 | head -6; done

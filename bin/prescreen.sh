#!/bin/sh
# bin/prescreen.sh <seeded-id> <family> [n] [seed]: apply a seeded change to /repo, run one family, undo it (development aid)
id=$1; fam=$2; n=${3:-200}; seed=${4:-0}
git -C /repo diff --quiet || { echo "/repo dirty"; exit 2; }
git -C /repo apply /verif/seeded/$id/patch.diff || exit 2
trap 'git -C /repo checkout -- . ; git -C /repo clean -fdq src' EXIT
echo "== $id x $fam"
/verif/bin/explore.py $fam $seed $n 2>&1 | grep -v "^    " | cut -c1-360 | head -${LINES_MAX:-9}

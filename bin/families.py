"""Scenario families: seeded random programs / configurations / fault plans per property cluster."""
import random
from vlib import Y, eff, Prog, setup_main, SCRIPTS_CORE, scenario_id

ALLKINDS = ["addr", "sender", "caller", "wsender", "wcaller", "waddr"]


def base(fam, seed, i, rng, horizon=0):
    return {"id": scenario_id(fam, seed, i), "seed": rng.randrange(1 << 30), "horizon": horizon, "clients": {}}


def fam_core(seed, i):
    """C01 C02 C12: submissions through all six handle kinds, bounded/unbounded, handlers with yields."""
    rng = random.Random(f"core-{seed}-{i}")
    sc = base("core", seed, i, rng)
    cfg = {"cap": rng.choice([-1, -1, 0, 1, 1, 2, 3]), "pscr": [Y] * rng.choice([0, 1, 2]), "sscr": [[Y] * rng.choice([0, 0, 1, 2, 3])]}
    ncl = rng.randint(1, 4)
    kinds = {f"c{k+1}": rng.choice(["addr", "addr", "sender", "caller", "wsender", "wcaller"]) for k in range(ncl)}
    keep = any(k.startswith("w") for k in kinds.values()) or rng.random() < 0.5
    main, handles = setup_main(rng, cfg, kinds, keep)
    sc["clients"]["main"] = main
    w = {"send": 8, "call": 8, "ping": 5, "yield": 3, "clone": 1, "drop": 1, "stop": 0.5, "downgrade": 0.5, "upgrade": 0.5,
         "sender": 0.5, "caller": 0.5, "weak_sender": 0.3, "weak_caller": 0.3, "force_send": 1.5}
    scripts = SCRIPTS_CORE
    if rng.random() < 0.12:
        # the actor is polled only when no client can run: the deepest backlog the programs can build (25-40 messages,
        # mostly on an unbounded mailbox: whatever the library buffers internally must not lose or reorder any)
        sc["starve"] = ["a1"]
        cfg["cap"] = rng.choice([-1, -1, -1, 1, 2])
        kinds = {f"c{k+1}": rng.choice(["addr", "addr", "sender", "wsender"]) for k in range(rng.randint(3, 4))}
        main, handles = setup_main(rng, cfg, kinds, True)
        sc["clients"]["main"] = main
        w = {"send": 10, "call": 1, "ping": 0.5, "force_send": 1}
        cnt = [0]
        for c in kinds:
            sc["clients"][c] = Prog(rng, c, handles.get(c, {}), w, [[], [], [Y]], cnt).run(rng.randint(8, 11))
        if cfg["cap"] >= 0 and rng.random() < 0.6:
            # a stop arrives while senders are waiting for room, and stopped() takes its time: they are let go when
            # the actor has terminated, not before
            cfg["pscr"] = [Y, Y]
            sc["clients"]["main"].append({"op": "clone", "h": "h0", "nh": "h_cz", "to": "cz"})
            sc["clients"]["cz"] = [{"op": "yield"}] * rng.randint(1, 3) + [{"op": "stop", "h": "h_cz"}, {"op": "yield"}, {"op": "stopped", "h": "h_cz"}]
        return sc
    if rng.random() < 0.08 and cfg["cap"] >= 0:
        # a handler that naps for seconds of virtual time while senders wait for room: however long it takes, a send
        # returns only when the actor has caught up
        sc["horizon"] = 6000
        sc["idle_only"] = True
        w = {"send": 8, "call": 2, "ping": 1, "yield": 1}
        scripts = [[eff("sleep", 1500)], [eff("sleep", 2500)], [], [Y]]
    elif rng.random() < 0.3:
        # pings used as barriers while handlers are suspended mid-way and other clients' pings are queued
        w = {"send": 5, "ping": 6, "call": 2, "yield": 2}
        scripts = [[Y], [Y, Y], [Y], []]
    cnt = [0]
    for c in kinds:
        sc["clients"][c] = Prog(rng, c, handles.get(c, {}), w, scripts, cnt).run(rng.randint(1, 7))
    return sc


def life_last_drop_while_busy(sc, rng):
    """The last strong handle goes away while a handler is running (the loop itself must not count as one): from that
    moment every weak handle fails to upgrade, for ever; what was accepted is still handled, then the actor stops (C05)."""
    cfg = {"cap": rng.choice([-1, -1, 2]), "pscr": [Y] * rng.choice([0, 1]), "sscr": [[Y] * rng.choice([0, 1])], "owning": False}
    wk = rng.choice(["waddr", "wsender", "wcaller"])
    main = [{"op": "spawn", "a": "a1", "nh": "h0", "cfg": cfg, "entry": rng.choice(["builder", "plain"])},
            {"op": {"waddr": "downgrade", "wsender": "weak_sender", "wcaller": "weak_caller"}[wk], "h": "h0", "nh": "w", "to": "c1"},
            {"op": "clone", "h": "h0", "nh": "h", "to": "c1"}, {"op": "drop", "h": "h0"}]
    sc["clients"]["main"] = main
    c1 = [{"op": "send", "h": "h", "scr": [Y] * rng.randint(2, 4)}]
    if rng.random() < 0.5:
        c1.append({"op": "send", "h": "h", "scr": [Y] * rng.choice([0, 1])})
    c1 += [{"op": "yield"}] * rng.randint(1, 2)
    c1.append({"op": "drop", "h": "h"})
    for k in range(rng.randint(1, 3)):
        c1.append({"op": "upgrade", "h": "w", "nh": f"u{k}", "to": "c1"})
        if wk == "wsender":
            c1.append({"op": rng.choice(["send", "force_send"]), "h": "w", "scr": []})
        elif wk == "wcaller":
            c1.append({"op": "call", "h": "w", "scr": []})
        else:
            c1.append({"op": rng.choice(["stopped", "try_stop"]), "h": "w"})
        c1 += [{"op": "yield"}] * rng.randint(0, 2)
    sc["clients"]["c1"] = c1
    return sc


def fam_life(seed, i):
    """C03 C04 C05 C14 C15 C17: handle algebra, stop entry points, awaiters, join/consume/detach, queries."""
    rng = random.Random(f"life-{seed}-{i}")
    sc = base("life", seed, i, rng)
    if rng.random() < 0.1:
        return life_last_drop_while_busy(sc, rng)
    owning = rng.random() < 0.5
    cfg = {"cap": rng.choice([-1, -1, 0, 1, 2]), "pscr": [Y] * rng.choice([0, 1, 2]), "sscr": [[Y] * rng.choice([0, 1, 1, 2, 3])], "owning": owning}
    ncl = rng.randint(1, 4)
    names = [f"c{k+1}" for k in range(ncl)]
    kinds = {c: rng.choice(ALLKINDS) for c in names}
    if owning:
        kinds[rng.choice(names)] = "owning"
    keep = rng.random() < 0.3
    main, handles = setup_main(rng, cfg, kinds, keep, entry=rng.choice(["builder", "builder", "plain", "default", "with"]))
    sc["clients"]["main"] = main
    w = {"send": 4, "call": 4, "ping": 1, "yield": 3, "clone": 2, "drop": 3, "stop": 2, "halt": 1, "try_stop": 1, "try_halt": 1,
         "await": 1.5, "await_ref": 1, "stopped": 2, "running": 1.5, "downgrade": 2, "upgrade": 2.5, "sender": 1, "caller": 1,
         "weak_sender": 1, "weak_caller": 1, "to_addr": 1, "detach": 0.7, "join": 1.5, "consume": 0.7, "consume_sync": 0.7, "force_send": 1.5}
    base_scripts = [[], [Y], [eff("ctx_stop")], [Y, eff("ctx_stop")], []]
    w["claim"] = 2
    cnt = [0]
    wn = [0]
    for c in names:
        p = Prog(rng, c, handles.get(c, {}), w, None, cnt)

        def scripts(p=p):
            if rng.random() < 0.15:
                # the handler hands out a weak handle to itself; the client picks it up later (`claim`)
                wn[0] += 1
                kind = rng.choice(["ctx_weak_address", "ctx_weak_sender", "ctx_weak_caller"])
                name = f"w{wn[0]}"
                p.claimable.append((name, {"ctx_weak_address": "waddr", "ctx_weak_sender": "wsender", "ctx_weak_caller": "wcaller"}[kind]))
                return [eff(kind, 0, name)] + [Y] * rng.choice([0, 1])
            return rng.choice(base_scripts)

        p.scripts = scripts
        sc["clients"][c] = p.run(rng.randint(1, 8), probes=rng.random() < 0.5)
    return sc


def fam_fail(seed, i):
    """C06 C02: every kind of actor failure at every position relative to pending operations."""
    rng = random.Random(f"fail-{seed}-{i}")
    sc = base("fail", seed, i, rng, horizon=12)
    owning = rng.random() < 0.5
    fault = rng.choice(["start_err", "start_panic", "handler_panic", "stopped_panic", "cancel", "timeout", "cancel", "handler_panic", "none"])
    cfg = {"cap": rng.choice([-1, -1, 0, 1, 2]), "pscr": [Y] * rng.choice([0, 1, 2]), "sscr": [[Y] * rng.choice([0, 1, 1, 2, 3])], "owning": owning}
    if fault == "start_err":
        cfg["sscr"] = [[Y] * rng.choice([0, 1]) + [eff("err")]]
    elif fault == "start_panic":
        cfg["sscr"] = [[Y] * rng.choice([0, 1]) + [eff("panic")]]
    elif fault == "stopped_panic":
        cfg["pscr"] = [Y] * rng.choice([0, 1]) + [eff("panic")]
    elif fault == "timeout":
        cfg["tmo"] = 2
        cfg["failto"] = True
    if fault == "cancel":
        sc["cancels"] = 1
        sc["cancel_pct"] = rng.choice([5, 10, 25])
    ncl = rng.randint(1, 4)
    names = [f"c{k+1}" for k in range(ncl)]
    kinds = {c: rng.choice(ALLKINDS) for c in names}
    if owning:
        kinds[rng.choice(names)] = "owning"
    main, handles = setup_main(rng, cfg, kinds, rng.random() < 0.5)
    sc["clients"]["main"] = main
    w = {"send": 5, "call": 6, "ping": 2, "yield": 3, "clone": 1, "drop": 1, "stop": 1, "halt": 0.7, "try_halt": 0.5,
         "await": 1.5, "await_ref": 1, "stopped": 2, "running": 1, "upgrade": 1.5, "join": 2, "consume": 0.7, "consume_sync": 0.5, "sleep": 1}
    scripts = [[], [Y], [Y, Y]]
    if fault == "handler_panic":
        scripts += [[eff("panic")], [Y, eff("panic")]]
    if fault == "timeout":
        scripts += [[eff("sleep", 1)], [eff("sleep", 3)], [eff("sleep", 4)], [Y, eff("sleep", 3)]]
    if fault == "stopped_panic":
        scripts += [[eff("ctx_stop")]]
        w["stop"] = 3
    # a bystander actor a2 that calls / sends to a1 from inside its handlers: it must see nothing but errors
    if rng.random() < 0.45:
        c0 = rng.choice(names)
        main.append({"op": "spawn", "a": "a2", "nh": "r_a2", "cfg": {"cap": rng.choice([-1, 1]), "pscr": [], "sscr": [[]]}, "entry": "builder"})
        src = "h0" if any(o.get("h") == "h0" and o["op"] == "drop" for o in main) is False and not owning else None
        # the peer handle: made from the root handle before it is dropped / given away
        ix = next(k for k, o in enumerate(main) if o["op"] == "spawn" and o["a"] == "a1") + 1
        main.insert(ix, {"op": "to_addr" if owning else "clone", "h": "h0", "nh": "p_a1", "to": "main"})
        main.append({"op": "give", "h": "p_a1", "to": "a2"})
        main.append({"op": "give", "h": "r_a2", "to": c0})
        handles.setdefault(c0, {})["r_a2"] = "addr"
        scripts = scripts + [[eff("call_peer", 0, "p_a1")], [eff("call_peer", 0, "p_a1")], [eff("send_peer", 0, "p_a1")], [Y, eff("call_peer", 0, "p_a1")]]
        sc["clients"]["main"] = main
    cnt = [0]
    for c in names:
        sc["clients"][c] = Prog(rng, c, handles.get(c, {}), w, scripts, cnt).run(rng.randint(1, 7))
    return sc


def fam_awaiters(seed, i):
    """C02 C04 C06 C14: address awaits in every shape - by value, by reference (first polled while the actor is alive,
    or only after it ended), again on the same handle, on clones made before / after the termination - around a
    graceful stop, a last-handle drop, or a failure."""
    rng = random.Random(f"awaiters-{seed}-{i}")
    sc = base("awaiters", seed, i, rng, horizon=6)
    end = rng.choice(["stop", "stop", "ctx_stop", "panic", "start_err", "stopped_panic", "cancel"])
    cfg = {"cap": rng.choice([-1, -1, 1]), "pscr": [Y] * rng.choice([0, 1, 2]), "sscr": [[Y] * rng.choice([0, 1, 1, 2, 3])]}
    if end == "start_err":
        cfg["sscr"] = [[Y] * rng.choice([0, 1]) + [eff("err")]]
    elif end == "stopped_panic":
        cfg["pscr"] = [Y] * rng.choice([0, 1]) + [eff("panic")]
    elif end == "cancel":
        sc["cancels"] = 1
        sc["cancel_pct"] = rng.choice([10, 25])
    ncl = rng.randint(2, 4)
    names = [f"c{k+1}" for k in range(ncl)]
    kinds = {c: "addr" for c in names}
    joiner = rng.random() < 0.35
    if joiner:
        # one client owns the actor: join futures in every shape (awaited, parked next to a second join, made and
        # dropped, polled once and dropped) while the others stop / await it
        cfg["owning"] = True
        kinds["c1"] = "owning"
    main, handles = setup_main(rng, cfg, kinds, rng.random() < 0.3, entry=rng.choice(["builder", "builder", "plain", "default"] + ([] if joiner else ["with"])))
    sc["clients"]["main"] = main
    w = {"await_ref": 6, "await": 2, "clone": 4, "stopped": 2, "running": 2, "yield": 3, "drop": 1, "halt": 0.7, "downgrade": 0.5,
         "upgrade": 0.7, "try_halt": 0.5, "call": 1.5, "send": 1}
    wj = {"join": 7, "to_addr": 1.5, "consume": 0.6, "consume_sync": 0.5, "detach": 0.3, "call": 1.5, "yield": 3, "ping": 0.5}
    scripts = [[], [Y]]
    if end == "panic":
        scripts += [[eff("panic")], [Y, eff("panic")]]
    elif end == "ctx_stop":
        scripts += [[eff("ctx_stop")], [Y, eff("ctx_stop")]]
    else:
        w["stop"] = 2.5
    cnt = [0]
    for c in names:
        p = Prog(rng, c, handles.get(c, {}), wj if (joiner and c == "c1") else w, scripts, cnt)
        p.cancel_p = 0.15
        p.join_d = [0, 2, 2, 3, 1, 5]
        sc["clients"][c] = p.run(rng.randint(3, 9))
    return sc


def restart_weak_across(sc, rng):
    """Weak handles the actor took from its own context (Context::weak_sender / weak_caller / weak_address) in one
    incarnation are used before and after restarts: "all handles stay valid" (C07), messages through them are accepted
    and handled in order like any other (C01, C15)."""
    kind = rng.choice(["ctx_weak_sender", "ctx_weak_sender", "ctx_weak_caller", "ctx_weak_address"])
    wk = {"ctx_weak_address": "waddr", "ctx_weak_sender": "wsender", "ctx_weak_caller": "wcaller"}[kind]
    cfg = {"cap": rng.choice([-1, -1, 2]), "strat": rng.choice(["restart", "recreate"]), "pscr": [Y] * rng.choice([0, 1]), "sscr": [[Y] * rng.choice([0, 1])], "owning": False}
    main, handles = setup_main(rng, cfg, {"c1": "addr", "c2": rng.choice(["addr", "sender"])}, True)
    sc["clients"]["main"] = main

    def use(n):
        if wk == "wsender":
            return {"op": rng.choice(["send", "send", "force_send"]), "h": "w1", "scr": rng.choice([[], [Y]])}
        if wk == "wcaller":
            return {"op": "call", "h": "w1", "scr": rng.choice([[], [Y]])}
        return {"op": "upgrade", "h": "w1", "nh": f"u{n}", "to": "c1"}

    c1 = [{"op": "call", "h": "h_c1", "scr": [eff(kind, 0, "w1")]}, {"op": "claim", "h": "w1"}, use(0)]
    for k in range(rng.randint(1, 3)):
        c1.append(rng.choice([{"op": "restart", "h": "h_c1"}, {"op": "send", "h": "h_c1", "scr": [eff("ctx_restart")]}]))
        c1 += [{"op": "yield"}] * rng.randint(0, 1)
        c1 += [use(10 * k + 1), {"op": "send", "h": "h_c1", "scr": []}, use(10 * k + 2)]
    c1.append({"op": "call", "h": "h_c1", "scr": []})
    sc["clients"]["c1"] = c1
    sc["clients"]["c2"] = [{"op": rng.choice(["send", "call"]) if handles["c2"]["h_c2"] == "addr" else "send", "h": "h_c2", "scr": rng.choice([[], [Y]])} for _ in range(rng.randint(1, 4))]
    return sc


def fam_restart(seed, i):
    """C07: restart requests through Addr::restart and Context::restart, all strategies."""
    rng = random.Random(f"restart-{seed}-{i}")
    sc = base("restart", seed, i, rng, horizon=10)
    strat = rng.choice(["restart", "restart", "recreate", "recreate", "none"])
    if rng.random() < 0.15:
        return restart_weak_across(sc, rng)
    sscr = [[Y] * rng.choice([0, 1])]
    r = rng.random()
    if r < 0.15:
        sscr.append([eff("err")])
    elif r < 0.25:
        sscr += [[Y], [Y, eff("err")]]
    elif r < 0.5:
        sscr.append([Y])
    cfg = {"cap": rng.choice([-1, -1, 0, 1, 2]), "strat": strat, "pscr": [Y] * rng.choice([0, 1]), "sscr": sscr, "owning": rng.random() < 0.4}
    ncl = rng.randint(1, 3)
    names = [f"c{k+1}" for k in range(ncl)]
    kinds = {c: rng.choice(["addr", "addr", "sender", "caller", "waddr"]) for c in names}
    if cfg["owning"]:
        kinds[rng.choice(names)] = "owning"
    # (sometimes nobody keeps a handle in the end: a restart that was accepted is still carried out, C07 / C05)
    drop_all = rng.random() < 0.3
    main, handles = setup_main(rng, cfg, kinds, not drop_all)
    sc["clients"]["main"] = main
    w = {"send": 5, "call": 6, "restart": 3, "yield": 3, "clone": 0.5, "stop": 0.7, "upgrade": 1, "join": 1, "await": 0.5, "stopped": 0.5, "claim": 4}
    base_scripts = [[], [Y], [eff("ctx_restart")], [Y, eff("ctx_restart")], []]
    cnt = [0]
    wn = [0]
    for c in names:
        p = Prog(rng, c, handles.get(c, {}), w, None, cnt)

        def scripts(p=p):
            if rng.random() < 0.25:
                # a weak handle obtained from the context of one incarnation is used across restarts
                wn[0] += 1
                kind = rng.choice(["ctx_weak_sender", "ctx_weak_sender", "ctx_weak_caller", "ctx_weak_address"])
                name = f"w{wn[0]}"
                p.claimable.append((name, {"ctx_weak_address": "waddr", "ctx_weak_sender": "wsender", "ctx_weak_caller": "wcaller"}[kind]))
                return [eff(kind, 0, name)]
            return rng.choice(base_scripts)

        p.scripts = scripts
        sc["clients"][c] = p.run(rng.randint(2, 8), drop_all=drop_all)
    return sc


def fam_timeout(seed, i):
    """C11: handler durations around the configured timeout on the virtual clock."""
    rng = random.Random(f"timeout-{seed}-{i}")
    sc = base("timeout", seed, i, rng, horizon=60)
    sc["idle_only"] = rng.random() < 0.7
    t = rng.choice([-1, 2, 3, 3, 4, 0])       # -1: none; 0: a configured timeout of zero
    cfg = {"cap": rng.choice([-1, -1, 1, 2]), "tmo": t, "failto": t >= 0 and rng.random() < 0.3, "pscr": [Y] * rng.choice([0, 1]), "owning": rng.random() < 0.4,
           "strat": rng.choice(["restart", "restart", "recreate", "none"])}
    # callbacks are not handlers: however long started / stopped take, the handler timeout does not apply to them
    r = rng.random()
    if r < 0.25:
        cfg["sscr"] = [[eff("sleep", rng.randint(1, 6))] + [Y] * rng.choice([0, 1])]
    elif r < 0.35:
        cfg["sscr"] = [[Y, eff("sleep", rng.randint(3, 6))]]
    if rng.random() < 0.35:
        cfg["pscr"] = [eff("sleep", rng.randint(1, 6))]
    if rng.random() < 0.25:
        # timers of the actor run alongside: an abandoned invocation must leave them (the actor's state) alone
        tk = [eff(rng.choice(["interval", "interval", "interval_with", "delayed_send"]), rng.randint(1, 3), f"t{k}") for k in range(rng.choice([1, 2]))]
        cfg["sscr"] = [cfg.get("sscr", [[]])[0] + tk]
        cfg["tscr"] = rng.choice([[], [Y], [eff("sleep", 1)], [eff("sleep", 3)], [eff("sleep", 5)]])
        sc["horizon"] = 24
    ncl = rng.randint(1, 3)
    names = [f"c{k+1}" for k in range(ncl)]
    kinds = {c: rng.choice(["addr", "addr", "sender", "caller"]) for c in names}
    if cfg["owning"]:
        kinds[names[0]] = "owning"
    main, handles = setup_main(rng, cfg, kinds, True)
    sc["clients"]["main"] = main
    w = {"send": 5, "call": 7, "yield": 1, "sleep": 1, "stop": 0.5, "join": 0.5, "ping": 1}
    if rng.random() < 0.12:
        sc["starve"] = ["a1"]          # a backlog behind the slow (timed-out) invocation
        w = {"send": 8, "call": 2}
    scripts = [[]] + [[eff("sleep", d)] for d in range(1, 7)] + [[Y, eff("sleep", 2)], [eff("sleep", 1), eff("sleep", 2)], [eff("sleep", 5), Y]]
    cnt = [0]
    for c in names:
        sc["clients"][c] = Prog(rng, c, handles.get(c, {}), w, scripts, cnt).run(rng.randint(2, 7))
    # half of the runs end with an explicit wind-down, so that stopped() (however long it takes) and what waits for it is seen
    enders = [c for c in names if kinds[c] in ("addr", "owning") and not any(o["op"] in ("stop", "join", "consume", "halt", "await") for o in sc["clients"][c])]
    if enders and rng.random() < 0.5:
        c = rng.choice(enders)
        h = "h0" if kinds[c] == "owning" else f"h_{c}"
        sc["clients"][c] += [{"op": "consume", "h": h}] if kinds[c] == "owning" else [{"op": "stop", "h": h}, {"op": "await", "h": h}]
    return sc


def fam_tmodrop(seed, i):
    """C05 x C11: a slow invocation runs into the handler timeout on an actor whose last strong handle goes away before
    the timeout fires, with accepted messages still queued behind it: under the carry-on policy the backlog is still
    handled before the actor stops; weak handles taken earlier stay inert from the last drop on."""
    rng = random.Random(f"tmodrop-{seed}-{i}")
    sc = base("tmodrop", seed, i, rng, horizon=60)
    sc["idle_only"] = rng.random() < 0.7
    t = rng.choice([2, 3, 3, 4])
    cfg = {"cap": rng.choice([-1, -1, 2, 3]), "tmo": t, "failto": rng.random() < 0.15, "pscr": rng.choice([[], [], [Y], [eff("sleep", rng.randint(1, 5))]]),
           "sscr": [[Y] * rng.choice([0, 1])], "owning": False, "strat": rng.choice(["restart", "restart", "recreate", "none"])}
    main = [{"op": "spawn", "a": "a1", "nh": "h0", "cfg": cfg, "entry": rng.choice(["builder", "builder:" + str(rng.randrange(4))])},
            {"op": "clone", "h": "h0", "nh": "h", "to": "c1"}]
    two = rng.random() < 0.4
    if two:
        main.append({"op": rng.choice(["sender", "clone", "caller"]), "h": "h0", "nh": "g", "to": "c2"})
    weak = rng.random() < 0.5
    if weak:
        main.append({"op": rng.choice(["downgrade", "weak_sender"]), "h": "h0", "nh": "w", "to": "c1"})
    main.append({"op": "drop", "h": "h0"})
    sc["clients"]["main"] = main
    slow = [eff("sleep", t + rng.randint(-1, 3))] + [Y] * rng.choice([0, 1])
    quick = [[], [], [Y], [eff("sleep", 1)], [eff("sleep", t + 1)]]
    c1 = [{"op": "send", "h": "h", "scr": slow}]
    for _ in range(rng.randint(1, 3)):
        c1.append({"op": "send", "h": "h", "scr": rng.choice(quick)})
    c1 += [{"op": "yield"}] * rng.randint(0, 2)
    c1.append({"op": "drop", "h": "h"})
    if weak:
        c1.append({"op": "upgrade", "h": "w", "nh": "u0", "to": "c1"})
        if rng.random() < 0.5:
            c1 += [{"op": "sleep", "d": rng.randint(1, t + 2)}, {"op": "upgrade", "h": "w", "nh": "u1", "to": "c1"}]
    sc["clients"]["c1"] = c1
    if two:
        c2 = [{"op": "yield"}] * rng.randint(0, 2)
        kind2 = main[2]["op"]
        for _ in range(rng.randint(0, 2)):
            c2.append({"op": "call" if kind2 == "caller" else "send", "h": "g", "scr": rng.choice(quick)})
        c2.append({"op": "drop", "h": "g"})
        sc["clients"]["c2"] = c2
    return sc


def fam_rstimers(seed, i):
    """C07 x C10: timers armed by one incarnation fall due while the next incarnation is still inside a slow started()
    (or stopped() of the restart), or right after it: none of them may fire on the new incarnation; timers the new
    incarnation arms itself run from its own started()."""
    rng = random.Random(f"rstimers-{seed}-{i}")
    sc = base("rstimers", seed, i, rng, horizon=rng.choice([10, 14]))
    sc["idle_only"] = rng.random() < 0.6
    tn = [0]

    def timer_eff(lo=1, hi=3):
        tn[0] += 1
        return eff(rng.choice(["interval", "interval_with", "delayed_send", "delayed_send", "delayed_exec"]), rng.randint(lo, hi), f"t{tn[0]}")

    sscr = [[Y] * rng.choice([0, 1]) + [timer_eff() for _ in range(rng.randint(1, 3))]]
    for _ in range(2):
        nxt = [eff("sleep", rng.randint(1, 5))] if rng.random() < 0.75 else [Y]
        if rng.random() < 0.4:
            nxt = nxt + [timer_eff()] if rng.random() < 0.5 else [timer_eff()] + nxt
        sscr.append(nxt)
    cfg = {"cap": rng.choice([-1, -1, 2]), "strat": rng.choice(["restart", "restart", "recreate"]), "sscr": sscr, "owning": False,
           "pscr": rng.choice([[], [], [Y], [eff("sleep", rng.randint(1, 3))]]), "tscr": rng.choice([[], [], [Y]])}
    main, handles = setup_main(rng, cfg, {"c1": "addr"}, rng.random() < 0.5)
    sc["clients"]["main"] = main
    h = "h_c1"
    c1 = []
    if rng.random() < 0.5:
        c1.append({"op": "send", "h": h, "scr": rng.choice([[], [timer_eff(2, 4)], [Y]])})
    if rng.random() < 0.4:
        c1.append({"op": "sleep", "d": rng.randint(1, 2)})
    c1.append({"op": "restart", "h": h})
    c1.append({"op": "sleep", "d": rng.randint(1, 6)})
    if rng.random() < 0.5:
        c1.append({"op": rng.choice(["send", "call"]), "h": h, "scr": rng.choice([[], [Y], [timer_eff()]])})
    if rng.random() < 0.4:
        c1 += [{"op": "restart", "h": h}, {"op": "sleep", "d": rng.randint(1, 6)}]
    c1.append({"op": "call", "h": h, "scr": []})
    if rng.random() < 0.6:
        c1 += [{"op": "stop", "h": h}, {"op": "await", "h": h}]
    sc["clients"]["c1"] = c1
    return sc


def fam_timers(seed, i):
    """C10 (and the timer clause of C07): timers of mixed kinds, termination at any time by any cause."""
    rng = random.Random(f"timers-{seed}-{i}")
    sc = base("timers", seed, i, rng, horizon=rng.choice([6, 8, 10, 12]))
    sc["idle_only"] = rng.random() < 0.5
    tn = [0]

    def timer_eff():
        tn[0] += 1
        kind = rng.choice(["interval", "interval", "interval_with", "interval_with", "delayed_send", "delayed_exec"])
        return eff(kind, rng.randint(1, 3), f"t{tn[0]}")

    sscr0 = [Y] * rng.choice([0, 1]) + [timer_eff() for _ in range(rng.choice([0, 1, 1, 2, 3, 4]))]
    if rng.random() < 0.25:
        # several one-shots that finish in arming order while a later-armed timer is still pending
        sscr0 = [eff(rng.choice(["delayed_send", "delayed_exec"]), 1, f"o{k}") for k in range(rng.choice([2, 3]))] + [eff(rng.choice(["interval", "interval_with", "delayed_send", "delayed_exec"]), rng.randint(4, 6), "late")]
    strat = rng.choice(["restart", "restart", "recreate", "none"])
    sscr = [sscr0]
    if rng.random() < 0.2:
        # the restarted started() fails while timers of the previous incarnation are armed
        sscr.append([Y] * rng.choice([0, 1]) + [eff(rng.choice(["err", "panic"]))])
    cfg = {"cap": rng.choice([-1, -1, 0, 1, 2]), "strat": strat, "pscr": [Y] * rng.choice([0, 1]), "sscr": sscr, "owning": rng.random() < 0.3,
           "tscr": rng.choice([[], [], [Y], [eff("sleep", 1)], [Y, eff("sleep", 2)]])}
    fault = rng.choice(["none", "none", "none", "panic", "cancel"])
    if fault == "cancel":
        sc["cancels"] = 1
        sc["cancel_pct"] = rng.choice([3, 8])
    ncl = rng.randint(1, 3)
    names = [f"c{k+1}" for k in range(ncl)]
    kinds = {c: rng.choice(["addr", "addr", "sender", "caller", "waddr"]) for c in names}
    if cfg["owning"]:
        kinds[rng.choice(names)] = "owning"
    main, handles = setup_main(rng, cfg, kinds, rng.random() < 0.4)
    sc["clients"]["main"] = main
    w = {"send": 4, "call": 4, "yield": 2, "sleep": 4, "drop": 1.5, "stop": 1, "restart": 1 if strat != "none" else 0.3, "upgrade": 1, "join": 0.5, "await": 0.5, "stopped": 0.5}
    drop_all = rng.random() < 0.3        # every client lets go in the end: timers alone must not keep the actor
    if drop_all:
        main = [o for o in main if True]
        if not any(o["op"] == "drop" and o.get("h") == "h0" for o in main) and not cfg["owning"]:
            main.append({"op": "drop", "h": "h0"})
        sc["clients"]["main"] = main
        w["stop"] = 0.2
    cnt = [0]
    for c in names:
        slp = rng.random() < 0.3

        def scripts():
            opts = [[], [Y], [timer_eff()], [timer_eff(), Y], [eff("ctx_stop")]]
            if fault == "panic":
                opts.append([eff("panic")])
            if slp:
                opts.append([eff("sleep", 2)])
            return rng.choice(opts)

        sc["clients"][c] = Prog(rng, c, handles.get(c, {}), w, scripts, cnt).run(rng.randint(2, 7), drop_all=drop_all)
    return sc


def tree_sibling_failure(sc, rng):
    """A parent with 2-4 children in one broadcast bucket; one child dies of a failure (or just ends) while its siblings
    are healthy; the parent keeps broadcasting: the siblings must keep receiving (C06: the damage is confined, C16)."""
    n = rng.randint(2, 4)
    kids = [f"a{k+2}" for k in range(n)]
    b = rng.choice(["register_bc", "register_bc2", "add_child"])
    bc = {"register_bc": "broadcast_bc", "register_bc2": "broadcast_bc2", "add_child": "broadcast_unit"}[b]
    victim = rng.choice(kids[:-1]) if rng.random() < 0.8 else kids[-1]
    how = rng.choice(["panic", "panic", "start_err", "ctx_stop", "cancel"])
    main = [{"op": "spawn", "a": "a1", "nh": "r_a1", "entry": "builder",
             "cfg": {"cap": -1, "pscr": [Y] * rng.choice([0, 1]), "sscr": [[eff(b, 0, f"r_{x}") for x in kids]], "strat": "restart"}}]
    pre = []
    for x in kids:
        sscr = [Y] * rng.choice([0, 1])
        if x == victim and how == "start_err":
            sscr = sscr + [eff("err")]
        pre.append({"op": "spawn", "a": x, "nh": f"r_{x}", "entry": "builder", "cfg": {"cap": rng.choice([-1, 1, 2]), "pscr": [], "sscr": [sscr]}})
        if x == victim:
            pre.append({"op": "clone", "h": f"r_{x}", "nh": "e_v", "to": "c1"})
        pre.append({"op": "give", "h": f"r_{x}", "to": "a1"})
    # (children are spawned and handed over before the parent starts, so that started() can register them)
    main = [main[0]] + pre
    # spawn order matters for the executor's actor numbering: parent first, then the children; the parent's started()
    # runs only when it is first polled, after main has given it the handles
    main.append({"op": "clone", "h": "r_a1", "nh": "h_c1", "to": "c1"})
    main.append({"op": "clone", "h": "r_a1", "nh": "h_c2", "to": "c2"})
    main.append({"op": "drop", "h": "r_a1"})
    sc["clients"]["main"] = main
    if how == "cancel":
        sc["cancels"] = 1
        sc["cancel_pct"] = 25
    kill = {"panic": [eff("panic")], "ctx_stop": [eff("ctx_stop")], "start_err": [], "cancel": [Y, Y]}[how]
    c1 = [{"op": "call", "h": "h_c1", "scr": [eff(bc)]}, {"op": "send", "h": "e_v", "scr": kill}, {"op": "yield"}]
    c1 += [{"op": "call", "h": "h_c1", "scr": [eff(bc)] + [Y] * rng.choice([0, 1])} for _ in range(rng.randint(1, 3))]
    c1 += [{"op": "drop", "h": "e_v"}, {"op": "call", "h": "h_c1", "scr": [eff(bc)]}]
    c2 = [{"op": rng.choice(["send", "call"]), "h": "h_c2", "scr": rng.choice([[eff(bc)], [], [Y]])} for _ in range(rng.randint(1, 4))]
    if rng.random() < 0.5:
        c2.append({"op": "stop", "h": "h_c2"})
    sc["clients"]["c1"] = c1
    sc["clients"]["c2"] = c2
    return sc


def tree_some_children_end(sc, rng):
    """A parent with 3-5 children under one message type; several of them are ended from outside (stopped, halted, or
    their own handler stops them) while the parent lives on and keeps broadcasting: every remaining child - also one
    held by nobody but the parent - stays alive and keeps receiving each broadcast exactly once (C16, C05)."""
    n = rng.randint(3, 5)
    kids = [f"a{k+2}" for k in range(n)]
    b = rng.choice(["register_bc", "register_bc2", "add_child"])
    bc = {"register_bc": "broadcast_bc", "register_bc2": "broadcast_bc2", "add_child": "broadcast_unit"}[b]
    enders = sorted(rng.sample(kids, rng.randint(2, n - 1)))
    main = [{"op": "spawn", "a": "a1", "nh": "r_a1", "entry": "builder",
             "cfg": {"cap": -1, "pscr": [Y] * rng.choice([0, 1]), "sscr": [[eff(b, 0, f"r_{x}") for x in kids]], "strat": "restart"}}]
    for x in kids:
        main.append({"op": "spawn", "a": x, "nh": f"r_{x}", "entry": "builder", "cfg": {"cap": rng.choice([-1, 2]), "pscr": [Y] * rng.choice([0, 1]), "sscr": [[Y] * rng.choice([0, 1])]}})
        if x in enders:
            main.append({"op": "clone", "h": f"r_{x}", "nh": f"e_{x}", "to": "c1"})
        elif rng.random() < 0.5:
            main.append({"op": "downgrade", "h": f"r_{x}", "nh": f"w_{x}", "to": "c1"})
        main.append({"op": "give", "h": f"r_{x}", "to": "a1"})
    main += [{"op": "clone", "h": "r_a1", "nh": "h_c1", "to": "c1"}, {"op": "clone", "h": "r_a1", "nh": "h_c2", "to": "c2"}, {"op": "drop", "h": "r_a1"}]
    sc["clients"]["main"] = main
    c1 = [{"op": "call", "h": "h_c1", "scr": [eff(bc)]}]
    for x in enders:
        how = rng.choice(["stop", "halt", "ctx_stop"])
        c1.append({"op": "send", "h": f"e_{x}", "scr": [eff("ctx_stop")]} if how == "ctx_stop" else {"op": how, "h": f"e_{x}"})
        if how != "halt" and rng.random() < 0.5:
            c1.append({"op": "await", "h": f"e_{x}"})
        c1 += [{"op": "yield"}] * rng.randint(0, 2)
    for _ in range(rng.randint(2, 4)):
        c1.append({"op": "call", "h": "h_c1", "scr": [eff(bc)] + [Y] * rng.choice([0, 1])})
        c1 += [{"op": "yield"}] * rng.randint(0, 1)
    for x in kids:
        if any(o.get("nh") == f"w_{x}" for o in main):
            c1 += [{"op": "upgrade", "h": f"w_{x}", "nh": f"u_{x}", "to": "c1"}, {"op": "stopped", "h": f"w_{x}"}]
    c1.append({"op": "call", "h": "h_c1", "scr": [eff(bc)]})
    sc["clients"]["c1"] = c1
    sc["clients"]["c2"] = [{"op": rng.choice(["send", "call"]), "h": "h_c2", "scr": rng.choice([[eff(bc)], [], [Y]])} for _ in range(rng.randint(1, 3))]
    return sc


def fam_tree(seed, i):
    """C16: actor trees (depth <= 3, <= 6 nodes), children under different buckets, some also held from
    outside, parent terminated by every cause; broadcasts."""
    rng = random.Random(f"tree-{seed}-{i}")
    sc = base("tree", seed, i, rng, horizon=6)
    n = rng.randint(2, 6)
    nodes = [f"a{k+1}" for k in range(n)]
    parent = {}
    depth = {"a1": 1}
    for k in range(1, n):
        cands = [x for x in nodes[:k] if depth[x] < 3]
        p = rng.choice(cands)
        parent[nodes[k]] = p
        depth[nodes[k]] = depth[p] + 1
    fault = rng.choice(["none", "none", "panic", "cancel", "start_err"])
    r0 = rng.random()
    if r0 < 0.2:
        return tree_sibling_failure(sc, rng)
    if r0 < 0.32:
        return tree_some_children_end(sc, rng)
    if fault == "cancel":
        sc["cancels"] = 1
        sc["cancel_pct"] = rng.choice([4, 10])
    main = []
    reg_eff = {x: [] for x in nodes}
    ext = {}            # external handles kept for clients
    bucket = {}
    ncl = rng.randint(1, 3)
    cl = [f"c{k+1}" for k in range(ncl)]
    handles = {c: {} for c in cl}
    # spawn leaves first is not needed: spawn all, then give child handles to the parents
    for x in nodes:
        # (a parent may still talk to its children from stopped(): they are held until it has terminated)
        cfg = {"cap": rng.choice([-1, -1, 1, 2]), "pscr": [Y] * rng.choice([0, 1]) + ([eff(rng.choice(["broadcast_unit", "broadcast_bc", "broadcast_bc2"]))] if rng.random() < 0.25 else []), "sscr": [[]]}
        if x != "a1" and x not in parent.values() and rng.random() < 0.2:
            # a leaf that runs on a stream which never ends: released with its parent like any other child
            cfg.update({"stream": True, "strat": "none", "items0": rng.choice([0, 0, 2]), "ended0": False, "iscr": [Y] * rng.choice([0, 1]), "fscr": []})
        main.append({"op": "spawn", "a": x, "nh": f"r_{x}", "cfg": cfg, "entry": "builder"})
    late = {}           # children registered by a message instead of in started
    for x in nodes[1:]:
        p = parent[x]
        b = rng.choice(["add_child", "add_child", "register_bc", "register_bc2"])
        bucket[x] = b
        if rng.random() < 0.55:
            c = rng.choice(cl)
            main.append({"op": "clone", "h": f"r_{x}", "nh": f"e_{x}", "to": c})
            handles[c][f"e_{x}"] = "addr"
        second = rng.random() < 0.25
        if second:
            # the same child registered a second time, under another message type (or twice as a plain child: two copies)
            main.append({"op": "clone", "h": f"r_{x}", "nh": f"q_{x}", "to": "main"})
        main.append({"op": "give", "h": f"r_{x}", "to": p})
        if rng.random() < 0.75:
            reg_eff[p].append(eff(b, 0, f"r_{x}"))
        else:
            late.setdefault(p, []).append(eff(b, 0, f"r_{x}"))
        if second:
            main.append({"op": "give", "h": f"q_{x}", "to": p})
            # (two copies of one typed broadcast carry the same message id and could not be told apart in the trace)
            reg_eff[p].append(eff(rng.choice([k for k in ("add_child", "register_bc", "register_bc2") if k != b or k == "add_child"]), 0, f"q_{x}"))
    # callback scripts are part of the spawn cfg: patch them in
    for o in main:
        if o["op"] == "spawn":
            x = o["a"]
            s0 = [Y] * rng.choice([0, 1]) + reg_eff[x]
            if rng.random() < 0.2:
                # a node with a timer of its own: it is released with its parent all the same
                s0 = s0 + [eff(rng.choice(["interval", "interval", "interval_with"]), rng.randint(1, 2), f"t_{x}")]
            if fault == "start_err" and x == "a1" and rng.random() < 0.5:
                s0 = s0 + [eff("err")]
            o["cfg"]["sscr"] = [s0]
            if not o["cfg"].get("stream"):
                o["cfg"]["strat"] = rng.choice(["restart", "restart", "recreate"])
    # the root (and sometimes inner nodes) is held by clients
    for c in cl:
        main.append({"op": "clone", "h": "r_a1", "nh": f"h_{c}", "to": c})
        handles[c][f"h_{c}"] = "addr"
    main.append({"op": "drop", "h": "r_a1"})
    sc["clients"]["main"] = main
    w = {"send": 6, "call": 3, "yield": 2, "drop": 1.5, "stop": 1.8, "halt": 0.7, "restart": 0.8, "sleep": 0.5, "await": 0.7, "stopped": 0.5, "clone": 0.3}
    cnt = [0]
    pend = [e for es in late.values() for e in es]
    for c in cl:
        def scripts():
            opts = [[], [Y], [eff("broadcast_unit")], [eff("broadcast_bc")], [eff("broadcast_bc2")], [eff("broadcast_unit"), Y, eff("broadcast_bc")], [eff("ctx_stop")]]
            if fault == "panic":
                opts.append([eff("panic")])
            if late.get("a1"):
                opts.append([late["a1"].pop()])
                opts.append(opts[-1])
            return rng.choice(opts)
        sc["clients"][c] = Prog(rng, c, handles[c], w, scripts, cnt).run(rng.randint(2, 8))
    return sc


def registry_respawn(sc, rng, types):
    """The registered instance of a type ends - gracefully or by a failure, awaited by nobody - and then every operation
    that depends on its liveness is tried: on-demand respawn (from_registry, setup), register-if-stopped (Addr::register,
    the builder's register), the probes (try_from_registry, already_running).  C08 C14 C06."""
    ty = rng.choice(types)
    n = [0]

    def fresh():
        n[0] += 1
        return f"x{n[0]}"

    acnt = [0]
    c1 = []
    get = rng.choice(["from_registry", "from_registry", "setup", "spawn_register"])
    h = fresh()
    if get == "spawn_register":
        acnt[0] += 1
        tmp, old = fresh(), fresh()
        c1 += [{"op": "spawn", "a": f"a{acnt[0]}", "nh": tmp, "cfg": {"ty": ty, "pscr": [Y] * rng.choice([0, 1]), "sscr": [[Y] * rng.choice([0, 1])]}, "entry": "builder_register"},
               {"op": "register", "h": tmp, "nh": h, "nh2": old}]
    elif get == "setup":
        c1 += [{"op": "setup", "ty": ty}, {"op": "try_from_registry", "ty": ty, "nh": h}]
    else:
        c1.append({"op": "from_registry", "ty": ty, "nh": h})
    kill = rng.choice(["stop", "ctx_stop", "panic", "panic", "drop_all"])
    if kill == "stop":
        c1.append({"op": "stop", "h": h})
    elif kill == "ctx_stop":
        c1.append({"op": "send", "h": h, "scr": [eff("ctx_stop")]})
    elif kill == "panic":
        c1.append({"op": "send", "h": h, "scr": [Y] * rng.choice([0, 1]) + [eff("panic")]})
    c1 += [{"op": "yield"}] * rng.randint(1, 3)
    probes_only = rng.random() < 0.3        # nothing respawns: what the probes say (and do not do) about a dead entry
    for _ in range(rng.randint(1, 4)):
        op = rng.choice(["try_from_registry", "already_running", "try_from_registry", "already_running", "unregister", "register"] if probes_only else
                        ["setup", "setup", "from_registry", "try_from_registry", "already_running", "register", "spawn_register", "unregister"])
        if op == "setup":
            c1.append({"op": "setup", "ty": ty})
        elif op in ("from_registry", "try_from_registry", "unregister"):
            c1.append({"op": op, "ty": ty, "nh": fresh()})
        elif op == "already_running":
            c1.append({"op": op, "ty": ty})
        else:
            acnt[0] += 1
            tmp, me, old = fresh(), fresh(), fresh()
            c1.append({"op": "spawn", "a": f"a{acnt[0]}", "nh": tmp, "cfg": {"ty": ty, "pscr": [], "sscr": [[Y] * rng.choice([0, 1])]}, "entry": "builder_register" if op == "spawn_register" else "builder"})
            c1.append({"op": "register", "h": tmp, "nh": me, "nh2": old})
        c1 += [{"op": "yield"}] * rng.randint(0, 1)
    c1 += [{"op": "try_from_registry", "ty": ty, "nh": fresh()}, {"op": "already_running", "ty": ty}]
    sc["clients"]["main"] = [{"op": "yield"}]
    sc["clients"]["c1"] = c1
    if rng.random() < 0.4:
        # a bystander using the same type concurrently
        sc["clients"]["c2"] = [{"op": rng.choice(["from_registry", "already_running", "try_from_registry", "setup"]), "ty": ty, "nh": f"y{k}"} for k in range(rng.randint(1, 3))]
        for o in sc["clients"]["c2"]:
            if o["op"] in ("already_running", "setup"):
                del o["nh"]
    return sc


def fam_registry(seed, i):
    """C08 C14: concurrent histories of the registry operations on 1-2 service types."""
    rng = random.Random(f"registry-{seed}-{i}")
    sc = base("registry", seed, i, rng, horizon=6)
    ntypes = rng.choice([1, 1, 2])
    types = ["1", "2"][:ntypes]
    if rng.random() < 0.25:
        return registry_respawn(sc, rng, types)
    ncl = rng.randint(1, 4)
    cl = [f"c{k+1}" for k in range(ncl)]
    handles = {c: {} for c in cl}
    main = []
    # some explicitly spawned instances of the service types, to be registered / to replace
    nsp = rng.choice([0, 1, 1, 2])
    acnt = [nsp]
    for k in range(nsp):
        c = rng.choice(cl)
        ty = rng.choice(types)
        # (some services use the registry themselves while they start: a Context::subscribe goes through its lock)
        s0 = [Y] * rng.choice([0, 1]) + ([eff("subscribe", 1)] if rng.random() < 0.3 else [])
        main.append({"op": "spawn", "a": f"a{k+1}", "nh": f"s{k+1}", "cfg": {"ty": ty, "pscr": [Y] * rng.choice([0, 1]), "sscr": [s0]}, "entry": "builder"})
        main.append({"op": "give", "h": f"s{k+1}", "to": c})
        handles[c][f"s{k+1}"] = "addr"
    if rng.random() < 0.3:
        main.append({"op": rng.choice(["from_registry", "setup"]), "ty": rng.choice(types), "nh": "m0"})
    sc["clients"]["main"] = main or [{"op": "yield"}]
    w = {"from_registry": 6, "setup": 1.5, "register": 2, "replace": 1.5, "unregister": 2, "try_from_registry": 3, "already_running": 3, "spawn_register": 2.5,
         "stop": 2, "await": 1, "await_ref": 0.7, "stopped": 2, "running": 1, "send": 2, "call": 2, "drop": 2, "yield": 3, "clone": 0.5, "halt": 0.7}
    scripts = [[], [Y], [eff("ctx_stop")], [eff("ctx_stop")]]
    if rng.random() < 0.4:
        scripts += [[eff("panic")], [eff("panic")], [eff("panic")]]          # a registered instance that dies of a failure
    cnt = [0]
    for c in cl:
        p = Prog(rng, c, handles[c], w, scripts, cnt)
        p.types = types
        p.acnt = acnt
        p.cancel_p = 0.15
        sc["clients"][c] = p.run(rng.randint(2, 8))
    return sc


def stream_infinite(sc, rng):
    """A stream that is ready at every poll and never ends (a socket under load): an explicit stop, or dropping the
    last strong handle, must still terminate the actor - the mailbox may not be starved by the stream (C13, C04, C05)."""
    sc["max_steps"] = 260
    cfg = {"cap": rng.choice([-1, -1, 1, 2]), "strat": "none", "stream": True, "items0": 100000, "ended0": False,
           "iscr": [Y], "fscr": [Y] * rng.choice([0, 1]), "pscr": [Y] * rng.choice([0, 1]), "sscr": [[Y] * rng.choice([0, 1])], "owning": False}
    by_drop = rng.random() < 0.4
    ncl = rng.randint(1, 2)
    names = [f"c{k+1}" for k in range(ncl)]
    kinds = {c: ("waddr" if by_drop else rng.choice(["addr", "sender", "caller", "waddr"])) for c in names}
    kinds["cz"] = "addr"
    main, handles = setup_main(rng, cfg, kinds, False, entry=rng.choice(["builder", "trait"]))
    sc["clients"]["main"] = main
    w = {"send": 5, "call": 3, "yield": 3, "stopped": 1, "upgrade": 1, "ping": 0.5}
    cnt = [0]
    for c in names:
        sc["clients"][c] = Prog(rng, c, handles.get(c, {}), w, [[], [Y]], cnt).run(rng.randint(1, 3))
    sc["clients"]["cz"] = [{"op": "yield"}] * rng.randint(0, 3) + [{"op": "drop" if by_drop else "stop", "h": "h_cz"}]
    return sc


def stream_ticking(sc, rng):
    """A stream-attached actor whose own interval ticks take at least a period to handle: its mailbox is never empty
    again.  When the stream ends the actor must still finish - its timers may not keep it alive (C10, C13)."""
    sc["max_steps"] = 420
    sc["horizon"] = 600
    sc["idle_only"] = False
    per = rng.choice([1, 1, 2])
    cfg = {"cap": rng.choice([-1, -1, 2]), "strat": "none", "stream": True, "items0": rng.randint(0, 2), "ended0": False,
           "iscr": [Y] * rng.choice([0, 1]), "fscr": [Y] * rng.choice([0, 1]), "pscr": [Y] * rng.choice([0, 1]),
           "sscr": [[eff(rng.choice(["interval", "interval_with"]), per, "t1")]], "tscr": [eff("sleep", 2 * per)], "owning": False}
    names = ["c1"]
    kinds = {"c1": rng.choice(["addr", "sender", "waddr"])}
    main, handles = setup_main(rng, cfg, kinds, True, entry="builder")
    sc["clients"]["main"] = main
    # the stream ends when ticks have been piling up for a while
    c1 = [{"op": "sleep", "d": 2 * per + rng.randint(1, 3)}]
    if rng.random() < 0.5:
        c1 += [{"op": "feed", "a": "a1", "d": rng.randint(1, 2)}, {"op": "sleep", "d": 1}]
    c1 += [{"op": "end_stream", "a": "a1", "d": 1}, {"op": "sleep", "d": 2}]
    sc["clients"]["c1"] = c1
    return sc


def fam_stream(seed, i):
    """C13: stream-attached actors; streams empty / finite / never-ending / never-ready / bursts under client control."""
    rng = random.Random(f"stream-{seed}-{i}")
    sc = base("stream", seed, i, rng, horizon=6)
    shape = rng.choice(["empty", "finite", "finite", "neverending", "neverready", "bursts", "bursts", "infinite", "ticking"])
    if shape == "infinite":
        return stream_infinite(sc, rng)
    if shape == "ticking":
        return stream_ticking(sc, rng)
    items0 = {"empty": 0, "finite": rng.randint(1, 4), "neverending": rng.randint(0, 3), "neverready": 0, "bursts": rng.randint(0, 2)}[shape]
    ended0 = shape in ("empty", "finite")
    cfg = {"cap": rng.choice([-1, -1, 0, 1, 2]), "strat": "none", "stream": True, "items0": items0, "ended0": ended0,
           "iscr": [Y] * rng.choice([0, 1, 1]), "fscr": [Y] * rng.choice([0, 1]), "pscr": [Y] * rng.choice([0, 1]),
           "sscr": [[Y] * rng.choice([0, 1, 1, 2, 3])], "owning": rng.random() < 0.3}
    if rng.random() < 0.08:
        cfg["sscr"] = [[eff("err")]]
    if rng.random() < 0.2 and cfg["sscr"] == [[Y] * len(cfg["sscr"][0])]:
        # the actor's own timers tick into the mailbox next to the stream
        cfg["sscr"] = [cfg["sscr"][0] + [eff(rng.choice(["interval", "interval_with", "delayed_send"]), rng.randint(1, 2), f"t{k}") for k in range(rng.choice([1, 2]))]]
        sc["horizon"] = 10
        ticking_drop = rng.random() < 0.6       # ... and in the end nobody holds the actor: its timers do not either
    else:
        ticking_drop = False
    slow = rng.random() < 0.25
    if slow:
        # a handler timeout configured on the builder before the stream is attached: stream-attached actors run
        # without one (items and messages are never abandoned), however long a handler takes
        cfg["tmo"] = rng.choice([1, 2])
        cfg["failto"] = rng.random() < 0.4
        cfg["iscr"] = rng.choice([[eff("sleep", 3)], [Y, eff("sleep", 2)], [Y]])
        sc["horizon"] = 30
    ncl = rng.randint(1, 3)
    names = [f"c{k+1}" for k in range(ncl)]
    kinds = {c: rng.choice(["addr", "addr", "sender", "caller", "waddr"]) for c in names}
    if cfg["owning"]:
        kinds[rng.choice(names)] = "owning"
    main, handles = setup_main(rng, cfg, kinds, rng.random() < 0.4, entry=rng.choice(["builder", "builder", "trait"]))
    sc["clients"]["main"] = main
    w = {"send": 5, "call": 4, "yield": 3, "drop": 2, "stop": 1.2, "await": 1, "halt": 0.5, "join": 0.7, "stopped": 0.7, "upgrade": 0.7, "ping": 0.5}
    if shape in ("bursts", "neverending"):
        w["feed"] = 4
    if shape == "bursts":
        w["end_stream"] = 1
    scripts = [[], [Y], [eff("ctx_stop")], [Y, Y]]
    if slow:
        scripts += [[eff("sleep", 3)], [eff("sleep", 4)]]
        w["sleep"] = 2
    cnt = [0]
    for c in names:
        p = Prog(rng, c, handles.get(c, {}), w, scripts, cnt)
        p.cancel_p = 0.2          # calls / sends given up by the client while the actor is busy with an item
        sc["clients"][c] = p.run(rng.randint(1, 8), drop_all=ticking_drop)
    if ticking_drop and not cfg["owning"] and not any(o["op"] == "drop" and o.get("h") == "h0" for o in main):
        main.append({"op": "drop", "h": "h0"})
    return sc


def broker_then_drop(sc, rng):
    """Subscribers that saw a publication and then lose their last strong handle, with no publication afterwards:
    a subscription (and whatever the broker did while delivering) must not keep them alive (C05, C09)."""
    T = rng.choice(["1", "2"])
    nsub = rng.randint(1, 3)
    subs = [f"a{k+1}" for k in range(nsub)]
    main = []
    for a in subs:
        cfg = {"cap": rng.choice([-1, -1, 1]), "pscr": [Y] * rng.choice([0, 1]), "sscr": [[Y] * rng.choice([0, 1]) + [eff("subscribe", int(T))]], "owning": False}
        main.append({"op": "spawn", "a": a, "nh": f"r_{a}", "cfg": cfg, "entry": "builder"})
        main.append({"op": "clone", "h": f"r_{a}", "nh": f"h_{a}", "to": "c1"})
        main.append({"op": "drop", "h": f"r_{a}"})
    sc["clients"]["main"] = main
    route = rng.choice(["publish", "publish", "actor"])
    c1 = []
    for _ in range(rng.randint(1, 3)):
        c1.append({"op": "publish", "ty": T} if route == "publish" else {"op": "call", "h": f"h_{rng.choice(subs)}", "scr": [eff("publish", int(T))]})
        c1 += [{"op": "yield"}] * rng.randint(0, 2)
    c1 += [{"op": "yield"}] * rng.randint(1, 3)
    for a in rng.sample(subs, len(subs)):
        if rng.random() < 0.3:
            c1.append({"op": "downgrade", "h": f"h_{a}", "nh": f"w_{a}", "to": "c1"})
        c1.append({"op": "drop", "h": f"h_{a}"})
        c1 += [{"op": "yield"}] * rng.randint(0, 1)
    for a in subs:
        if any(o.get("nh") == f"w_{a}" for o in c1):
            c1 += [{"op": "yield"}, {"op": "upgrade", "h": f"w_{a}", "nh": f"u_{a}", "to": "c1"}, {"op": "stopped", "h": f"w_{a}"}]
    sc["clients"]["c1"] = c1
    return sc


def fam_broker(seed, i):
    """C09: 1-3 publishers, 1-4 subscribers, 1-2 topics; subscribe / re-subscribe / unsubscribe / terminate anywhere;
    publishing through Broker::publish, Addr<Broker>::publish and Context::publish."""
    rng = random.Random(f"broker-{seed}-{i}")
    sc = base("broker", seed, i, rng, horizon=4)
    topics = ["1", "2"][:rng.choice([1, 1, 2])]
    if rng.random() < 0.2:
        return broker_then_drop(sc, rng)
    nsub = rng.randint(1, 4)
    subs = [f"a{k+1}" for k in range(nsub)]
    ncl = rng.randint(1, 3)
    cl = [f"c{k+1}" for k in range(ncl)]
    handles = {c: {} for c in cl}
    main = []
    for a in subs:
        s0 = [Y] * rng.choice([0, 1])
        for T in topics:
            if rng.random() < 0.6:
                s0.append(eff("subscribe", int(T)))
        if rng.random() < 0.15 and s0:
            s0.append(s0[-1])                      # subscribing twice must not duplicate deliveries
        # (a restarted subscriber runs started() - and so its subscribe - again: still one subscription, one delivery)
        cfg = {"cap": rng.choice([-1, -1, -1, 0, 1, 2]), "pscr": [Y] * rng.choice([0, 1]), "sscr": [s0], "owning": False,
               "strat": rng.choice(["restart", "restart", "recreate", "recreate", "none"])}
        main.append({"op": "spawn", "a": a, "nh": f"r_{a}", "cfg": cfg, "entry": "builder"})
        holders = rng.sample(cl, rng.randint(1, len(cl)))
        for c in holders:
            kind = rng.choice(["clone", "clone", "caller", "sender"])
            main.append({"op": kind, "h": f"r_{a}", "nh": f"h_{a}_{c}", "to": c})
            handles[c][f"h_{a}_{c}"] = {"clone": "addr", "caller": "caller", "sender": "sender"}[kind]
        main.append({"op": "drop", "h": f"r_{a}"})
    sc["clients"]["main"] = main
    w = {"publish": 6, "try_publish": 1.5, "broker": 1.5, "bpublish": 4, "bsubscribe": 1.5, "bunsubscribe": 1.5, "send": 4, "call": 1, "yield": 3, "drop": 1.5, "stop": 1, "stopped": 0.3, "await": 0.3,
         "restart": 1.5}
    cnt = [0]
    for c in cl:
        def scripts():
            T = int(rng.choice(topics))
            return rng.choice([[], [eff("publish", T)], [eff("subscribe", T)], [eff("publish", T), Y], [eff("ctx_stop")], [Y], [eff("ctx_restart")]])
        p = Prog(rng, c, handles[c], w, scripts, cnt)
        p.topics = topics
        sc["clients"][c] = p.run(rng.randint(2, 9))
    return sc


def fam_mix(seed, i):
    """Every property: one main actor with a random combination of ALL configuration axes (mailbox kind, restart
    strategy, handler timeout, stream, owning spawn, service type), started() arming timers / subscribing / registering
    children, clients of every handle kind running the union of the operation alphabets, handlers running the union of
    the effect alphabets, optional fault.  Catches what only shows when two features meet."""
    rng = random.Random(f"mix-{seed}-{i}")
    sc = base("mix", seed, i, rng, horizon=rng.choice([8, 12, 16]))
    sc["idle_only"] = rng.random() < 0.5
    stream = rng.random() < 0.25
    tn = [0]
    topics = ["1", "2"][:rng.choice([1, 2])]

    def timer_eff():
        tn[0] += 1
        kind = rng.choice(["interval", "interval_with", "delayed_send", "delayed_exec"])
        return eff(kind, rng.randint(1, 3), f"t{tn[0]}")

    fault = rng.choice(["none", "none", "none", "panic", "cancel", "start_err", "stopped_panic"])
    s0 = [Y] * rng.choice([0, 1, 2, 3])
    if rng.random() < 0.35:
        s0 += [timer_eff() for _ in range(rng.choice([1, 1, 2]))]
    if rng.random() < 0.3:
        s0.append(eff("subscribe", int(rng.choice(topics))))
    nk = rng.choice([0, 0, 0, 1, 2, 3])
    kids = [f"a{k+2}" for k in range(nk)]
    bucket = {x: rng.choice(["add_child", "register_bc", "register_bc2"]) for x in kids}
    s0 += [eff(bucket[x], 0, f"r_{x}") for x in kids]
    if fault == "start_err":
        s0 = s0 + [eff("err")]
    pscr = [Y] * rng.choice([0, 1, 2])
    if fault == "stopped_panic":
        pscr = pscr + [eff("panic")]
    elif rng.random() < 0.15:
        pscr = pscr + [eff("sleep", rng.randint(1, 4))]
    owning = rng.random() < 0.35
    if stream:
        shape = rng.choice(["finite", "neverending", "neverready", "bursts"])
        items0 = {"finite": rng.randint(1, 3), "neverending": rng.randint(0, 2), "neverready": 0, "bursts": rng.randint(0, 2)}[shape]
        cfg = {"cap": rng.choice([-1, -1, 0, 1, 2]), "strat": "none", "stream": True, "items0": items0, "ended0": shape == "finite",
               "iscr": [Y] * rng.choice([0, 1]), "fscr": [Y] * rng.choice([0, 1]), "pscr": pscr, "sscr": [s0], "owning": owning}
        entry = "builder"
    else:
        t = rng.choice([-1, -1, -1, 2, 3, 4, 0])
        strat = rng.choice(["restart", "restart", "recreate", "none"])
        sscr = [s0]
        if strat != "none" and rng.random() < 0.3:
            sscr.append([Y] * rng.choice([0, 1]) + ([eff("err")] if rng.random() < 0.3 else []))
        cfg = {"cap": rng.choice([-1, -1, 0, 1, 2]), "strat": strat, "tmo": t, "failto": t >= 0 and rng.random() < 0.3,
               "pscr": pscr, "sscr": sscr, "owning": owning, "ty": rng.choice(["0", "0", "1"])}
        entry = rng.choice(["builder", "builder", "plain"])
    if fault == "cancel":
        sc["cancels"] = 1
        sc["cancel_pct"] = rng.choice([4, 10])
    ncl = rng.randint(1, 4)
    names = [f"c{k+1}" for k in range(ncl)]
    kinds = {c: rng.choice(ALLKINDS) for c in names}
    if owning:
        kinds[rng.choice(names)] = "owning"
    main, handles = setup_main(rng, cfg, kinds, rng.random() < 0.4, entry=entry)
    # children: spawned after the parent, handed to it before it is first polled (its started() registers them)
    ix = 1
    for x in kids:
        kc = {"cap": rng.choice([-1, 1, 2]), "pscr": [Y] * rng.choice([0, 1]), "sscr": [[Y] * rng.choice([0, 1])]}
        ins = [{"op": "spawn", "a": x, "nh": f"r_{x}", "cfg": kc, "entry": "builder"}]
        if rng.random() < 0.5:
            c = rng.choice(names)
            ins.append({"op": "clone", "h": f"r_{x}", "nh": f"e_{x}", "to": c})
            handles.setdefault(c, {})[f"e_{x}"] = "addr"
        ins.append({"op": "give", "h": f"r_{x}", "to": "a1"})
        main[ix:ix] = ins
        ix += len(ins)
    sc["clients"]["main"] = main
    w = {"send": 5, "call": 5, "ping": 1, "yield": 3, "sleep": 2, "clone": 1, "drop": 2, "stop": 1, "halt": 0.4, "try_stop": 0.5, "try_halt": 0.4,
         "await": 0.8, "await_ref": 0.7, "stopped": 1, "running": 0.7, "downgrade": 1, "upgrade": 1.5, "sender": 0.4, "caller": 0.4,
         "weak_sender": 0.4, "weak_caller": 0.4, "to_addr": 0.5, "detach": 0.3, "join": 1, "consume": 0.4, "consume_sync": 0.3,
         "restart": 1.2, "publish": 1.5, "try_publish": 0.4, "force_send": 1}
    if stream:
        w["feed"] = 3
        w["end_stream"] = 0.7
    elif cfg["ty"] != "0":
        w.update({"from_registry": 1, "register": 0.7, "replace": 0.5, "unregister": 0.7, "try_from_registry": 1, "already_running": 1})
    cnt = [0]
    wn = [0]
    for c in names:
        p = Prog(rng, c, handles.get(c, {}), w, None, cnt)
        p.types = ["1"]
        p.topics = topics

        def scripts(p=p):
            r = rng.random()
            if r < 0.07:
                wn[0] += 1
                kind = rng.choice(["ctx_weak_address", "ctx_weak_sender", "ctx_weak_caller"])
                name = f"w{wn[0]}"
                p.claimable.append((name, {"ctx_weak_address": "waddr", "ctx_weak_sender": "wsender", "ctx_weak_caller": "wcaller"}[kind]))
                return [eff(kind, 0, name)]
            opts = [[], [], [Y], [Y, Y], [eff("ctx_stop")], [eff("ctx_restart")], [timer_eff()], [eff("sleep", rng.randint(1, 5))],
                    [eff("publish", int(rng.choice(topics)))], [eff("subscribe", int(rng.choice(topics)))], [Y, eff("sleep", 2)]]
            if kids:
                opts += [[eff("broadcast_unit")], [eff("broadcast_bc")], [eff("broadcast_bc2"), Y]]
            if fault == "panic":
                opts += [[eff("panic")], [Y, eff("panic")]]
            return rng.choice(opts)

        p.scripts = scripts
        p.w = dict(w, claim=1)
        sc["clients"][c] = p.run(rng.randint(2, 9))
    return sc


FAMILIES = {"mix": fam_mix, "core": fam_core, "awaiters": fam_awaiters, "life": fam_life, "fail": fam_fail, "restart": fam_restart, "timeout": fam_timeout, "tmodrop": fam_tmodrop, "rstimers": fam_rstimers, "timers": fam_timers, "tree": fam_tree, "registry": fam_registry, "stream": fam_stream, "broker": fam_broker}

"""Scenario families: seeded random programs / configurations / fault plans per property cluster."""
import random
from vlib import Y, eff, Prog, setup_main, SCRIPTS_CORE, scenario_id

ALLKINDS = ["addr", "sender", "caller", "wsender", "wcaller", "waddr"]


def base(fam, seed, i, rng, horizon=0):
    return {"id": scenario_id(fam, seed, i), "seed": rng.randrange(1 << 30), "horizon": horizon, "clients": {}}


def fam_core(seed, i):
    """C01 C02 C12: submissions through all six handle kinds, bounded/unbounded, handlers with yields."""
    rng = random.Random(f"core-{seed}-{i}")
    sc = base("core", seed, i, rng)
    cfg = {"cap": rng.choice([-1, -1, 0, 1, 1, 2, 3]), "pscr": [Y] * rng.choice([0, 1]), "sscr": [[Y] * rng.choice([0, 0, 1])]}
    ncl = rng.randint(1, 4)
    kinds = {f"c{k+1}": rng.choice(["addr", "addr", "sender", "caller", "wsender", "wcaller"]) for k in range(ncl)}
    keep = any(k.startswith("w") for k in kinds.values()) or rng.random() < 0.5
    main, handles = setup_main(rng, cfg, kinds, keep)
    sc["clients"]["main"] = main
    w = {"send": 8, "call": 8, "ping": 2, "yield": 3, "clone": 1, "drop": 1, "stop": 0.5, "downgrade": 0.5, "upgrade": 0.5,
         "sender": 0.5, "caller": 0.5, "weak_sender": 0.3, "weak_caller": 0.3}
    cnt = [0]
    for c in kinds:
        sc["clients"][c] = Prog(rng, c, handles.get(c, {}), w, SCRIPTS_CORE, cnt).run(rng.randint(1, 7))
    return sc


def fam_life(seed, i):
    """C03 C04 C05 C14 C15 C17: handle algebra, stop entry points, awaiters, join/consume/detach, queries."""
    rng = random.Random(f"life-{seed}-{i}")
    sc = base("life", seed, i, rng)
    owning = rng.random() < 0.5
    cfg = {"cap": rng.choice([-1, -1, 0, 1, 2]), "pscr": [Y] * rng.choice([0, 1, 2]), "sscr": [[Y] * rng.choice([0, 1])], "owning": owning}
    ncl = rng.randint(1, 4)
    names = [f"c{k+1}" for k in range(ncl)]
    kinds = {c: rng.choice(ALLKINDS) for c in names}
    if owning:
        kinds[rng.choice(names)] = "owning"
    keep = rng.random() < 0.3
    main, handles = setup_main(rng, cfg, kinds, keep, entry=rng.choice(["builder", "plain"]))
    sc["clients"]["main"] = main
    w = {"send": 4, "call": 4, "ping": 1, "yield": 3, "clone": 2, "drop": 3, "stop": 2, "halt": 1, "try_stop": 1, "try_halt": 1,
         "await": 1.5, "await_ref": 1, "stopped": 2, "running": 1.5, "downgrade": 2, "upgrade": 2.5, "sender": 1, "caller": 1,
         "weak_sender": 1, "weak_caller": 1, "to_addr": 1, "detach": 0.7, "join": 1.5, "consume": 0.7, "consume_sync": 0.7}
    scripts = [[], [Y], [eff("ctx_stop")], [Y, eff("ctx_stop")], []]
    cnt = [0]
    for c in names:
        sc["clients"][c] = Prog(rng, c, handles.get(c, {}), w, scripts, cnt).run(rng.randint(1, 8))
    return sc


FAMILIES = {"core": fam_core, "life": fam_life}

// only here to get hannibal and futures built as rlibs for the C19 catalogue

//! hharness run <scenarios.ndjson> <traces.ndjson>
//!   runs every scenario (one JSON object per line) against the real hannibal crate on the
//!   deterministic executor and appends its trace (one JSON event per line, starting with a
//!   `reset` event) to the output file.  A second file <traces>.dec gets the decisions taken.
mod actors;
mod exec;
mod scenario;

use std::io::{BufRead, Write};

fn main() {
    let args: Vec<String> = std::env::args().collect();
    if args.len() < 4 || args[1] != "run" {
        eprintln!("usage: hharness run <scenarios.ndjson> <traces.ndjson>");
        std::process::exit(2);
    }
    // scripted panics are data, keep stderr quiet
    std::panic::set_hook(Box::new(|info| {
        let msg = info.to_string();
        if msg.contains("harness:") {
            eprintln!("{msg}");
        }
    }));
    let inp = std::io::BufReader::new(std::fs::File::open(&args[2]).expect("open scenarios"));
    let mut out = std::io::BufWriter::new(std::fs::File::create(&args[3]).expect("create traces"));
    let mut dec = std::io::BufWriter::new(std::fs::File::create(format!("{}.dec", args[3])).expect("create dec"));
    let mut n = 0usize;
    for line in inp.lines() {
        let line = line.expect("read");
        if line.trim().is_empty() {
            continue;
        }
        let v: serde_json::Value = serde_json::from_str(&line).expect("scenario line is JSON");
        let sc = scenario::parse(&v);
        let (log, taken) = scenario::run(&sc);
        for l in log {
            writeln!(out, "{l}").unwrap();
        }
        writeln!(dec, "{}", serde_json::json!({"id": sc.id, "decisions": taken})).unwrap();
        n += 1;
    }
    out.flush().unwrap();
    dec.flush().unwrap();
    eprintln!("hharness: {n} scenarios");
}

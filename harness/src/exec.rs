//! Deterministic single-threaded executor with a virtual clock.
//!
//! One *decision* = poll one runnable task until it returns, or advance the clock to the next
//! pending deadline, or cancel (drop) a suspended actor task.  Every decision and every
//! scheduling-relevant fact (pick / block / exit / yield / advance / cancel) is written to the
//! recorder, so that the TLA+ trace specification can follow the run step by step.
use hannibal::verif::{Backend, BoxFut};
use serde_json::{Value, json};
use std::{
    cell::RefCell,
    future::Future,
    pin::Pin,
    rc::Rc,
    sync::{
        Arc, Mutex,
        atomic::{AtomicBool, Ordering},
    },
    task::{Context as TCx, Poll, Wake, Waker},
    time::Duration,
};

pub type LocalFut = Pin<Box<dyn Future<Output = ()>>>;

thread_local! {
    static LOG: RefCell<Vec<String>> = const { RefCell::new(Vec::new()) };
    static CUR: RefCell<String> = const { RefCell::new(String::new()) };
}

/// Append one event to the trace.
pub fn ev(v: Value) {
    LOG.with(|l| l.borrow_mut().push(v.to_string()));
}
pub fn take_log() -> Vec<String> {
    LOG.with(|l| std::mem::take(&mut *l.borrow_mut()))
}
/// Name of the task that is being polled right now.
pub fn cur_task() -> String {
    CUR.with(|c| c.borrow().clone())
}

struct Flag(AtomicBool);
impl Wake for Flag {
    fn wake(self: Arc<Self>) {
        self.0.store(true, Ordering::SeqCst)
    }
}

#[derive(Clone, Copy, PartialEq, Eq, Debug)]
pub enum Kind {
    Client,
    Actor,
    Timer,
    /// a future the library spawned that is neither an actor's loop nor one of its timers (the unchanged library
    /// has none): opaque to the specification, scheduled like any other task
    Other,
}

struct Task {
    name: String,
    kind: Kind,
    fut: Option<LocalFut>,
    flag: Arc<Flag>,
    polls: u32,
}

struct SleepEntry {
    deadline: u64,
    fired: bool,
    dropped: bool,
    waker: Option<Waker>,
}

pub struct SleepFut(Arc<Mutex<SleepEntry>>);
impl Future for SleepFut {
    type Output = ();
    fn poll(self: Pin<&mut Self>, cx: &mut TCx<'_>) -> Poll<()> {
        let mut g = self.0.lock().unwrap();
        if g.fired {
            Poll::Ready(())
        } else {
            g.waker = Some(cx.waker().clone());
            Poll::Pending
        }
    }
}
impl Drop for SleepFut {
    fn drop(&mut self) {
        self.0.lock().unwrap().dropped = true;
    }
}

/// A scheduling point: returns `Pending` once (after waking itself), logging a `yield` event.
pub struct YieldFut {
    done: bool,
    tag: &'static str,
}
impl YieldFut {
    pub fn new(tag: &'static str) -> Self {
        YieldFut { done: false, tag }
    }
}
impl Future for YieldFut {
    type Output = ();
    fn poll(mut self: Pin<&mut Self>, cx: &mut TCx<'_>) -> Poll<()> {
        if self.done {
            Poll::Ready(())
        } else {
            self.done = true;
            ev(json!({"ev": "yield", "task": cur_task(), "tag": self.tag}));
            cx.waker().wake_by_ref();
            Poll::Pending
        }
    }
}

#[derive(Default)]
struct Inner {
    tasks: Vec<Task>,
    now: u64,
    sleeps: Vec<Arc<Mutex<SleepEntry>>>,
    rng: u64,
    next_actor: Option<String>,
    next_timer: Option<String>,
    anon: u32,
}

#[derive(Clone, Default)]
pub struct Exec(Rc<RefCell<Inner>>);

#[derive(Clone, Debug, PartialEq)]
pub enum Decision {
    Pick(String),
    Adv,
    Cancel(String),
}
impl Decision {
    pub fn to_s(&self) -> String {
        match self {
            Decision::Pick(t) => t.clone(),
            Decision::Adv => "adv".into(),
            Decision::Cancel(t) => format!("cancel:{t}"),
        }
    }
    pub fn from_s(s: &str) -> Self {
        if s == "adv" {
            Decision::Adv
        } else if let Some(t) = s.strip_prefix("cancel:") {
            Decision::Cancel(t.into())
        } else {
            Decision::Pick(s.into())
        }
    }
}

/// Actor event loops spawned in this process so far.  Every `Context` of the crate is created right
/// before its loop is handed to the spawner and context ids count up from 0, so this is the context
/// id of the next actor (checked against the real id wherever the harness gets to see one).
static ACTOR_SPAWNS: std::sync::atomic::AtomicU64 = std::sync::atomic::AtomicU64::new(0);

impl Backend for Exec {
    fn spawn(&self, fut: BoxFut, is_actor: bool) {
        let name = {
            let mut i = self.0.borrow_mut();
            let lab = if is_actor { i.next_actor.take() } else { i.next_timer.take() };
            match lab {
                Some(n) => n,
                None => {
                    i.anon += 1;
                    format!("{}{}", if is_actor { "r" } else { "u" }, i.anon)
                }
            }
        };
        if is_actor {
            let aid = ACTOR_SPAWNS.fetch_add(1, Ordering::SeqCst);
            crate::scenario::bind_name(aid, &name);
        }
        let kind = if is_actor {
            Kind::Actor
        } else if name.starts_with('u') {
            Kind::Other
        } else {
            Kind::Timer
        };
        self.add(fut, name, kind);
    }
    fn sleep(&self, d: Duration) -> BoxFut {
        Box::pin(self.sleep_ticks(d.as_millis() as u64))
    }
    fn yield_point(&self, tag: &'static str) -> BoxFut {
        Box::pin(YieldFut::new(tag))
    }
}

impl Exec {
    pub fn new(seed: u64) -> Self {
        let e = Exec::default();
        e.0.borrow_mut().rng = seed.wrapping_mul(0x9E37_79B9_7F4A_7C15) | 1;
        e
    }
    pub fn add(&self, fut: LocalFut, name: String, kind: Kind) {
        self.0.borrow_mut().tasks.push(Task { name, kind, fut: Some(fut), flag: Arc::new(Flag(AtomicBool::new(true))), polls: 0 })
    }
    pub fn label_next_actor(&self, name: &str) {
        self.0.borrow_mut().next_actor = Some(name.into());
    }
    pub fn label_next_timer(&self, name: &str) {
        self.0.borrow_mut().next_timer = Some(name.into());
    }
    pub fn now(&self) -> u64 {
        self.0.borrow().now
    }
    pub fn sleep_ticks(&self, d: u64) -> SleepFut {
        let mut i = self.0.borrow_mut();
        let st = Arc::new(Mutex::new(SleepEntry { deadline: i.now + d, fired: d == 0, dropped: false, waker: None }));
        i.sleeps.push(st.clone());
        SleepFut(st)
    }
    pub fn rnd(&self, n: usize) -> usize {
        let mut i = self.0.borrow_mut();
        i.rng ^= i.rng << 13;
        i.rng ^= i.rng >> 7;
        i.rng ^= i.rng << 17;
        (i.rng % n as u64) as usize
    }
    fn runnable(&self) -> Vec<String> {
        let i = self.0.borrow();
        i.tasks.iter().filter(|t| t.fut.is_some() && t.flag.0.load(Ordering::SeqCst)).map(|t| t.name.clone()).collect()
    }
    /// earliest deadline of a live, un-fired sleep
    fn next_deadline(&self) -> Option<u64> {
        let mut i = self.0.borrow_mut();
        i.sleeps.retain(|s| {
            let g = s.lock().unwrap();
            !g.dropped && !g.fired
        });
        i.sleeps.iter().map(|s| s.lock().unwrap().deadline).min()
    }
    /// Has the named task been asked to run again (its waker was invoked) since its current poll began?
    pub fn task_woken(&self, name: &str) -> bool {
        self.0.borrow().tasks.iter().find(|t| t.name == name).map(|t| t.flag.0.load(Ordering::SeqCst)).unwrap_or(false)
    }
    pub fn alive(&self, kind: Kind) -> Vec<String> {
        self.0.borrow().tasks.iter().filter(|t| t.fut.is_some() && t.kind == kind).map(|t| t.name.clone()).collect()
    }
    fn suspended_actors(&self) -> Vec<String> {
        self.alive(Kind::Actor)
    }

    /// The decisions available now.
    pub fn options(&self, horizon: u64, idle_only: bool, cancel_budget: u32) -> Vec<Decision> {
        let run = self.runnable();
        let mut out: Vec<Decision> = run.iter().cloned().map(Decision::Pick).collect();
        if let Some(d) = self.next_deadline() {
            if d <= horizon && (!idle_only || run.is_empty()) {
                out.push(Decision::Adv);
            }
        }
        if cancel_budget > 0 {
            // (only actors the scenario spawned itself: the registry's on-demand instances are library-internal tasks)
            for a in self.suspended_actors().into_iter().filter(|a| a.starts_with('a')) {
                out.push(Decision::Cancel(a));
            }
        }
        out
    }

    pub fn apply(&self, d: &Decision) -> bool {
        match d {
            Decision::Pick(t) => self.poll_task(t),
            Decision::Adv => {
                let Some(at) = self.next_deadline() else { return false };
                self.0.borrow_mut().now = at;
                ev(json!({"ev": "advance", "task": "env", "vt": at}));
                let sleeps = self.0.borrow().sleeps.clone();
                for s in sleeps {
                    let mut g = s.lock().unwrap();
                    if !g.fired && !g.dropped && g.deadline <= at {
                        g.fired = true;
                        if let Some(w) = g.waker.take() {
                            w.wake()
                        }
                    }
                }
                true
            }
            Decision::Cancel(t) => {
                let fut = {
                    let mut i = self.0.borrow_mut();
                    let Some(task) = i.tasks.iter_mut().find(|x| &x.name == t && x.fut.is_some()) else { return false };
                    task.fut.take()
                };
                ev(json!({"ev": "cancel", "task": t}));
                CUR.with(|c| *c.borrow_mut() = t.clone());
                let _ = std::panic::catch_unwind(std::panic::AssertUnwindSafe(move || drop(fut)));
                CUR.with(|c| c.borrow_mut().clear());
                true
            }
        }
    }

    fn poll_task(&self, name: &str) -> bool {
        let (mut fut, flag, ix) = {
            let mut i = self.0.borrow_mut();
            let Some(ix) = i.tasks.iter().position(|t| t.name == name && t.fut.is_some()) else { return false };
            let t = &mut i.tasks[ix];
            t.flag.0.store(false, Ordering::SeqCst);
            t.polls += 1;
            (t.fut.take().unwrap(), t.flag.clone(), ix)
        };
        CUR.with(|c| *c.borrow_mut() = name.to_string());
        let opaque = self.0.borrow().tasks[ix].kind == Kind::Other;
        if opaque {
            ev(json!({"ev": "pick", "task": name, "opaque": true}));
        } else {
            ev(json!({"ev": "pick", "task": name}));
        }
        let waker = Waker::from(flag);
        let r = std::panic::catch_unwind(std::panic::AssertUnwindSafe(|| fut.as_mut().poll(&mut TCx::from_waker(&waker))));
        match r {
            Ok(Poll::Pending) => {
                // `woken`: the task asked to be polled again while it ran (a cooperative yield, a wake-up it caused
                // itself): it is suspended but runnable, which says nothing about what it is waiting for
                let woken = self.0.borrow().tasks[ix].flag.0.load(Ordering::SeqCst);
                if woken {
                    ev(json!({"ev": "block", "task": name, "woken": true}));
                } else {
                    ev(json!({"ev": "block", "task": name}));
                }
                self.0.borrow_mut().tasks[ix].fut = Some(fut);
            }
            Ok(Poll::Ready(())) => {
                // dropping the finished future may run more harness code (Drop impls): still this task
                let _ = std::panic::catch_unwind(std::panic::AssertUnwindSafe(move || drop(fut)));
                ev(json!({"ev": "exit", "task": name, "how": "ready"}));
            }
            Err(_) => {
                let _ = std::panic::catch_unwind(std::panic::AssertUnwindSafe(move || drop(fut)));
                ev(json!({"ev": "exit", "task": name, "how": "panic"}));
            }
        }
        CUR.with(|c| c.borrow_mut().clear());
        true
    }

    /// Drop everything that is still alive (end of scenario); nothing is logged by callers after this.
    pub fn teardown(&self) {
        let tasks: Vec<Task> = std::mem::take(&mut self.0.borrow_mut().tasks);
        for t in tasks {
            let _ = std::panic::catch_unwind(std::panic::AssertUnwindSafe(move || drop(t)));
        }
        self.0.borrow_mut().sleeps.clear();
    }
}

//! Scenario format and its interpreter: maps every operation of the spec's client alphabet to
//! the public API call of the real crate and records what happened.
use crate::actors::{ActorScripts, Bc, Bc2, CMsg, Desc, Effect, H, Reply, SMsg, Tp, WORLD};
use hannibal::Broker;
use crate::exec::{Decision, Exec, Kind, YieldFut, ev, take_log};
use futures::future::LocalBoxFuture;
use hannibal::{
    Addr, Caller, OwningAddr, Sender, WeakAddr, WeakCaller, WeakSender,
    error::Result as HResult,
    prelude::*,
    verif::{self, VerifId},
};
use serde::{Deserialize, Serialize};
use serde_json::{Value, json};
use std::{cell::RefCell, collections::BTreeMap, collections::HashMap, rc::Rc, time::Duration};

fn neg1() -> i64 {
    -1
}
fn restart_s() -> String {
    "restart".into()
}
fn zero_s() -> String {
    "0".into()
}
fn none_s() -> String {
    "none".into()
}

#[derive(Clone, Debug, Serialize, Deserialize)]
pub struct Cfg {
    #[serde(default = "neg1")]
    pub cap: i64,
    #[serde(default = "restart_s")]
    pub strat: String,
    #[serde(default)]
    pub stream: bool,
    #[serde(default = "neg1")]
    pub tmo: i64,
    #[serde(default)]
    pub failto: bool,
    #[serde(default)]
    pub owning: bool,
    #[serde(default)]
    pub sscr: Vec<Vec<Effect>>,
    #[serde(default)]
    pub pscr: Vec<Effect>,
    #[serde(default)]
    pub fscr: Vec<Effect>,
    #[serde(default = "zero_s")]
    pub ty: String,
    #[serde(default)]
    pub items0: i64,
    #[serde(default)]
    pub ended0: bool,
    #[serde(default)]
    pub iscr: Vec<Effect>,
    /// script of the handler of the actor's own timer ticks (interval / interval_with / delayed_send)
    #[serde(default)]
    pub tscr: Vec<Effect>,
}
impl Cfg {
    fn is_default(&self) -> bool {
        self.cap == -1 && self.strat == "restart" && !self.stream && self.tmo < 0 && !self.failto && !self.owning && self.sscr.is_empty() && self.pscr.is_empty() && self.fscr.is_empty() && self.ty == "0" && self.items0 == 0 && !self.ended0 && self.iscr.is_empty() && self.tscr.is_empty()
    }
}
impl Default for Cfg {
    fn default() -> Self {
        Cfg { cap: -1, strat: "restart".into(), stream: false, tmo: -1, failto: false, owning: false, sscr: vec![], pscr: vec![], fscr: vec![], ty: "0".into(), items0: 0, ended0: false, iscr: vec![], tscr: vec![] }
    }
}

#[derive(Clone, Debug, Serialize, Deserialize)]
pub struct Op {
    pub op: String,
    #[serde(default = "none_s")]
    pub h: String,
    #[serde(default = "none_s")]
    pub nh: String,
    #[serde(default = "none_s")]
    pub a: String,
    #[serde(default)]
    pub scr: Vec<Effect>,
    #[serde(default, skip_serializing_if = "Cfg::is_default")]
    pub cfg: Cfg,
    #[serde(default)]
    pub d: i64,
    #[serde(default = "none_s")]
    pub to: String,
    #[serde(default = "zero_s")]
    pub ty: String,
    #[serde(default = "none_s")]
    pub nh2: String,
    #[serde(default = "none_s")]
    pub h2: String,
    /// builder entry point variant (not part of the spec's record)
    #[serde(default, skip_serializing)]
    pub entry: String,
}

#[derive(Clone, Debug, Deserialize)]
pub struct Scenario {
    pub id: String,
    #[serde(default)]
    pub seed: u64,
    #[serde(default)]
    pub horizon: u64,
    #[serde(default)]
    pub idle_only: bool,
    #[serde(default)]
    pub cancels: u32,
    /// probability (percent) of choosing a cancel when one is possible
    #[serde(default)]
    pub cancel_pct: u32,
    pub clients: BTreeMap<String, Vec<Op>>,
    #[serde(default)]
    pub decisions: Option<Vec<String>>,
    #[serde(default)]
    pub max_steps: Option<usize>,
    /// tasks that are polled only when nothing else can run (builds up the deepest possible backlog)
    #[serde(default)]
    pub starve: Vec<String>,
}

// ---------------------------------------------------------------------------------------------
// type-erased views of the handle kinds that mention the actor type

pub trait AddrLike {
    fn send(&self, m: SMsg) -> LocalBoxFuture<'_, HResult<()>>;
    fn call(&self, m: CMsg) -> LocalBoxFuture<'_, HResult<Reply>>;
    fn ping(&self) -> LocalBoxFuture<'_, HResult<()>>;
    fn stop(&mut self) -> HResult<()>;
    fn restart(&mut self) -> HResult<()>;
    fn halt(self: Box<Self>) -> LocalBoxFuture<'static, HResult<()>>;
    fn wait(self: Box<Self>) -> LocalBoxFuture<'static, HResult<()>>;
    fn wait_ref(&mut self) -> LocalBoxFuture<'_, HResult<()>>;
    fn stopped(&self) -> bool;
    fn running(&self) -> bool;
    fn clone_box(&self) -> Box<dyn AddrLike>;
    fn downgrade(&self) -> Box<dyn WAddrLike>;
    fn sender(&self) -> Sender<SMsg>;
    fn caller(&self) -> Caller<CMsg>;
    fn weak_sender(&self) -> WeakSender<SMsg>;
    fn weak_caller(&self) -> WeakCaller<CMsg>;
    fn aid(&self) -> u64;
    fn register(self: Box<Self>) -> LocalBoxFuture<'static, HResult<(Box<dyn AddrLike>, Option<Box<dyn AddrLike>>)>>;
    fn replace(self: Box<Self>) -> LocalBoxFuture<'static, Option<Box<dyn AddrLike>>>;
    fn into_any(self: Box<Self>) -> Box<dyn std::any::Any>;
    fn into_sender_unit(self: Box<Self>) -> Sender<()>;
    fn into_sender_bc(self: Box<Self>) -> Sender<Bc>;
    fn into_sender_bc2(self: Box<Self>) -> Sender<Bc2>;
    /// weak sender for topic T (subscriber side)
    fn weak_topic1(&self) -> WeakSender<Tp<1>> {
        panic!("harness: unsupported on this handle")
    }
    fn weak_topic2(&self) -> WeakSender<Tp<2>> {
        panic!("harness: unsupported on this handle")
    }
    /// the same conversion through the `From` impls (route 1: from `&Addr`, route 2: from an owned clone)
    fn convert_via(&self, _what: &str, _route: i64) -> Option<HandleV> {
        None
    }
    /// broker side: Addr<Broker<T>>::publish / subscribe / unsubscribe
    fn bpublish(&self, _m: crate::actors::MsgId) -> LocalBoxFuture<'_, HResult<()>> {
        panic!("harness: not a broker handle")
    }
    fn bsubscribe<'a>(&'a self, _sub: &'a dyn AddrLike, _unsub: bool) -> LocalBoxFuture<'a, HResult<()>> {
        panic!("harness: not a broker handle")
    }
}
impl<const K: usize> AddrLike for Addr<H<K>> {
    fn into_any(self: Box<Self>) -> Box<dyn std::any::Any> {
        self
    }
    fn weak_topic1(&self) -> WeakSender<Tp<1>> {
        Addr::weak_sender(self)
    }
    fn weak_topic2(&self) -> WeakSender<Tp<2>> {
        Addr::weak_sender(self)
    }
    fn register(self: Box<Self>) -> LocalBoxFuture<'static, HResult<(Box<dyn AddrLike>, Option<Box<dyn AddrLike>>)>> {
        Box::pin(async move {
            let (me, old) = Addr::register(*self).await?;
            Ok((Box::new(me) as Box<dyn AddrLike>, old.map(|o| Box::new(o) as Box<dyn AddrLike>)))
        })
    }
    fn replace(self: Box<Self>) -> LocalBoxFuture<'static, Option<Box<dyn AddrLike>>> {
        Box::pin(async move { Addr::replace(*self).await.map(|o| Box::new(o) as Box<dyn AddrLike>) })
    }
    fn into_sender_unit(self: Box<Self>) -> Sender<()> {
        (*self).into()
    }
    fn into_sender_bc(self: Box<Self>) -> Sender<Bc> {
        (*self).into()
    }
    fn into_sender_bc2(self: Box<Self>) -> Sender<Bc2> {
        (*self).into()
    }
    fn send(&self, m: SMsg) -> LocalBoxFuture<'_, HResult<()>> {
        Box::pin(Addr::send(self, m))
    }
    fn call(&self, m: CMsg) -> LocalBoxFuture<'_, HResult<Reply>> {
        Box::pin(Addr::call(self, m))
    }
    fn ping(&self) -> LocalBoxFuture<'_, HResult<()>> {
        Box::pin(Addr::ping(self))
    }
    fn stop(&mut self) -> HResult<()> {
        Addr::stop(self)
    }
    fn restart(&mut self) -> HResult<()> {
        Addr::restart(self)
    }
    fn halt(self: Box<Self>) -> LocalBoxFuture<'static, HResult<()>> {
        Box::pin(Addr::halt(*self))
    }
    fn wait(self: Box<Self>) -> LocalBoxFuture<'static, HResult<()>> {
        Box::pin(*self)
    }
    fn wait_ref(&mut self) -> LocalBoxFuture<'_, HResult<()>> {
        Box::pin(async move { (&mut *self).await })
    }
    fn stopped(&self) -> bool {
        Addr::stopped(self)
    }
    fn running(&self) -> bool {
        Addr::running(self)
    }
    fn clone_box(&self) -> Box<dyn AddrLike> {
        Box::new(self.clone())
    }
    fn downgrade(&self) -> Box<dyn WAddrLike> {
        Box::new(Addr::downgrade(self))
    }
    fn sender(&self) -> Sender<SMsg> {
        Addr::sender(self)
    }
    fn caller(&self) -> Caller<CMsg> {
        Addr::caller(self)
    }
    fn weak_sender(&self) -> WeakSender<SMsg> {
        Addr::weak_sender(self)
    }
    fn weak_caller(&self) -> WeakCaller<CMsg> {
        Addr::weak_caller(self)
    }
    fn aid(&self) -> u64 {
        self.__verif_id()
    }
    fn convert_via(&self, what: &str, route: i64) -> Option<HandleV> {
        Some(match (what, route) {
            ("sender", 1) => HandleV::Sender(Sender::from(self)),
            ("sender", 2) => HandleV::Sender(Sender::from(self.clone())),
            ("caller", 2) => HandleV::Caller(Caller::from(self.clone())),
            ("weak_sender", 1) => HandleV::WSender(WeakSender::from(self)),
            ("weak_sender", 2) => HandleV::WSender(WeakSender::from(self.clone())),
            ("weak_caller", 1) => HandleV::WCaller(WeakCaller::from(self)),
            ("weak_caller", 2) => HandleV::WCaller(WeakCaller::from(self.clone())),
            ("downgrade", 1) => HandleV::WAddr(Box::new(hannibal::WeakAddr::from(self))),
            _ => return None,
        })
    }
}

macro_rules! unsupported {
    () => {
        panic!("harness: unsupported on a broker handle")
    };
}
macro_rules! broker_addr {
    ($T:literal, $weak:ident) => {
        impl AddrLike for Addr<Broker<Tp<$T>>> {
            fn send(&self, _m: SMsg) -> LocalBoxFuture<'_, HResult<()>> { unsupported!() }
            fn call(&self, _m: CMsg) -> LocalBoxFuture<'_, HResult<Reply>> { unsupported!() }
            fn ping(&self) -> LocalBoxFuture<'_, HResult<()>> { Box::pin(Addr::ping(self)) }
            fn stop(&mut self) -> HResult<()> { Addr::stop(self) }
            fn restart(&mut self) -> HResult<()> { unsupported!() }
            fn halt(self: Box<Self>) -> LocalBoxFuture<'static, HResult<()>> { Box::pin(Addr::halt(*self)) }
            fn wait(self: Box<Self>) -> LocalBoxFuture<'static, HResult<()>> { Box::pin(*self) }
            fn wait_ref(&mut self) -> LocalBoxFuture<'_, HResult<()>> { Box::pin(async move { (&mut *self).await }) }
            fn stopped(&self) -> bool { Addr::stopped(self) }
            fn running(&self) -> bool { Addr::running(self) }
            fn clone_box(&self) -> Box<dyn AddrLike> { Box::new(self.clone()) }
            fn downgrade(&self) -> Box<dyn WAddrLike> { unsupported!() }
            fn sender(&self) -> Sender<SMsg> { unsupported!() }
            fn caller(&self) -> Caller<CMsg> { unsupported!() }
            fn weak_sender(&self) -> WeakSender<SMsg> { unsupported!() }
            fn weak_caller(&self) -> WeakCaller<CMsg> { unsupported!() }
            fn aid(&self) -> u64 { self.__verif_id() }
            fn register(self: Box<Self>) -> LocalBoxFuture<'static, HResult<(Box<dyn AddrLike>, Option<Box<dyn AddrLike>>)>> { unsupported!() }
            fn replace(self: Box<Self>) -> LocalBoxFuture<'static, Option<Box<dyn AddrLike>>> { unsupported!() }
            fn into_any(self: Box<Self>) -> Box<dyn std::any::Any> { self }
            fn into_sender_unit(self: Box<Self>) -> Sender<()> { unsupported!() }
            fn into_sender_bc(self: Box<Self>) -> Sender<Bc> { unsupported!() }
            fn into_sender_bc2(self: Box<Self>) -> Sender<Bc2> { unsupported!() }
            fn bpublish(&self, m: crate::actors::MsgId) -> LocalBoxFuture<'_, HResult<()>> {
                Box::pin(self.publish(Tp::<$T>(m)))
            }
            fn bsubscribe<'a>(&'a self, sub: &'a dyn AddrLike, unsub: bool) -> LocalBoxFuture<'a, HResult<()>> {
                let w = sub.$weak();
                if unsub { Box::pin(self.unsubscribe(w)) } else { Box::pin(self.subscribe(w)) }
            }
        }
    };
}
broker_addr!(1, weak_topic1);
broker_addr!(2, weak_topic2);

pub trait WAddrLike {
    fn upgrade(&self) -> Option<Box<dyn AddrLike>>;
    fn stopped(&self) -> bool;
    fn try_stop(&mut self) -> HResult<()>;
    fn try_halt(&mut self) -> LocalBoxFuture<'_, HResult<()>>;
    fn clone_box(&self) -> Box<dyn WAddrLike>;
    fn aid(&self) -> u64;
}
impl<const K: usize> WAddrLike for WeakAddr<H<K>> {
    fn upgrade(&self) -> Option<Box<dyn AddrLike>> {
        WeakAddr::upgrade(self).map(|a| Box::new(a) as Box<dyn AddrLike>)
    }
    fn stopped(&self) -> bool {
        WeakAddr::stopped(self)
    }
    fn try_stop(&mut self) -> HResult<()> {
        WeakAddr::try_stop(self)
    }
    fn try_halt(&mut self) -> LocalBoxFuture<'_, HResult<()>> {
        Box::pin(WeakAddr::try_halt(self))
    }
    fn clone_box(&self) -> Box<dyn WAddrLike> {
        Box::new(self.clone())
    }
    fn aid(&self) -> u64 {
        self.__verif_id()
    }
}

pub struct Joined {
    pub inst: u64,
    pub st_len: usize,
}
pub trait OwningLike {
    fn addr(&self) -> &dyn AddrLike;
    fn to_addr(&self) -> Box<dyn AddrLike>;
    fn detach(self: Box<Self>) -> Box<dyn AddrLike>;
    fn join(&mut self) -> LocalBoxFuture<'static, Option<Joined>>;
    fn consume(self: Box<Self>) -> LocalBoxFuture<'static, HResult<Joined>>;
    fn consume_sync(self: Box<Self>) -> HResult<LocalBoxFuture<'static, Option<Joined>>>;
    fn send(&self, m: SMsg) -> LocalBoxFuture<'_, HResult<()>>;
    fn call(&self, m: CMsg) -> LocalBoxFuture<'_, HResult<Reply>>;
    fn ping(&self) -> LocalBoxFuture<'_, HResult<()>>;
    fn aid(&self) -> u64;
}
fn joined<const K: usize>(h: H<K>) -> Joined {
    Joined { inst: h.inst, st_len: h.st.len() }
}
impl<const K: usize> OwningLike for OwningAddr<H<K>> {
    fn addr(&self) -> &dyn AddrLike {
        self.as_addr()
    }
    fn to_addr(&self) -> Box<dyn AddrLike> {
        Box::new(OwningAddr::to_addr(self))
    }
    fn detach(self: Box<Self>) -> Box<dyn AddrLike> {
        Box::new(OwningAddr::detach(*self))
    }
    fn join(&mut self) -> LocalBoxFuture<'static, Option<Joined>> {
        let f = OwningAddr::join(self);
        Box::pin(async move { f.await.map(joined) })
    }
    fn consume(self: Box<Self>) -> LocalBoxFuture<'static, HResult<Joined>> {
        Box::pin(async move { OwningAddr::consume(*self).await.map(joined) })
    }
    fn consume_sync(self: Box<Self>) -> HResult<LocalBoxFuture<'static, Option<Joined>>> {
        let f = OwningAddr::consume_sync(*self)?;
        Ok(Box::pin(async move { f.await.map(joined) }))
    }
    fn send(&self, m: SMsg) -> LocalBoxFuture<'_, HResult<()>> {
        Box::pin(OwningAddr::send(self, m))
    }
    fn call(&self, m: CMsg) -> LocalBoxFuture<'_, HResult<Reply>> {
        Box::pin(OwningAddr::call(self, m))
    }
    fn ping(&self) -> LocalBoxFuture<'_, HResult<()>> {
        Box::pin(OwningAddr::ping(self))
    }
    fn aid(&self) -> u64 {
        self.__verif_id()
    }
}

pub enum HandleV {
    Addr(Box<dyn AddrLike>),
    Owning(Box<dyn OwningLike>),
    Sender(Sender<SMsg>),
    Caller(Caller<CMsg>),
    WAddr(Box<dyn WAddrLike>),
    WSender(WeakSender<SMsg>),
    WCaller(WeakCaller<CMsg>),
}
impl HandleV {
    fn aid(&self) -> u64 {
        match self {
            HandleV::Addr(a) => a.aid(),
            HandleV::Owning(a) => a.aid(),
            HandleV::Sender(a) => a.__verif_id(),
            HandleV::Caller(a) => a.__verif_id(),
            HandleV::WAddr(a) => a.aid(),
            HandleV::WSender(a) => a.__verif_id(),
            HandleV::WCaller(a) => a.__verif_id(),
        }
    }
}

#[derive(Default)]
struct Tables {
    handles: HashMap<String, HandleV>,
    /// context id -> actor name
    names: HashMap<u64, String>,
    /// handle -> actor it was given to (children to be)
    given: HashMap<String, String>,
    /// handle name -> a builder whose terminal `.register()` (spawn + register in one call) is still to be made
    pending_reg: HashMap<String, PendingReg>,
}
type RegOut = HResult<(Box<dyn AddrLike>, Option<Box<dyn AddrLike>>)>;
type PendingReg = Box<dyn FnOnce() -> LocalBoxFuture<'static, RegOut>>;
thread_local! { static TAB: RefCell<Tables> = RefCell::new(Tables::default()); }

/// A handle taken out of the table for the duration of an operation; put back when the operation ends - also when
/// its future is dropped half-way (a cancelled operation must not lose the handle it merely borrowed).
struct Held {
    name: String,
    h: Option<HandleV>,
}
impl Held {
    fn take(name: &str) -> Self {
        Held { name: name.to_string(), h: Some(take_h(name)) }
    }
    fn get(&self) -> &HandleV {
        self.h.as_ref().expect("held handle")
    }
    fn get_mut(&mut self) -> &mut HandleV {
        self.h.as_mut().expect("held handle")
    }
}
impl Drop for Held {
    fn drop(&mut self) {
        if let Some(h) = self.h.take() {
            put_h(&self.name, h);
        }
    }
}

fn take_h(name: &str) -> HandleV {
    TAB.with(|t| t.borrow_mut().handles.remove(name)).unwrap_or_else(|| panic!("harness: no handle {name}"))
}
fn put_h(name: &str, h: HandleV) {
    TAB.with(|t| t.borrow_mut().handles.insert(name.to_string(), h));
}
/// A handler hands a weak handle to itself out to the clients (Context::weak_address / weak_sender / weak_caller).
pub fn put_ctx_weak<const K: usize>(name: &str, which: &str, ctx: &hannibal::Context<H<K>>) -> &'static str {
    if TAB.with(|t| t.borrow().handles.contains_key(name)) {
        return "none";
    }
    let h = match which {
        "ctx_weak_address" => match ctx.weak_address() {
            Some(w) => HandleV::WAddr(Box::new(w)),
            None => return "none",
        },
        "ctx_weak_sender" => HandleV::WSender(ctx.weak_sender::<SMsg>()),
        _ => HandleV::WCaller(ctx.weak_caller::<CMsg, Reply>()),
    };
    put_h(name, h);
    "ok"
}

/// An `Addr<H<0>>` that was given to actor `owner`, borrowed by one of its handlers for a nested call / send to that
/// peer.  `Send` (unlike the type-erased table entries), and put back into the table when dropped.
pub struct PeerAddr {
    name: String,
    pub addr: Option<Addr<H<0>>>,
}
impl Drop for PeerAddr {
    fn drop(&mut self) {
        if let Some(a) = self.addr.take() {
            put_h(&self.name, HandleV::Addr(Box::new(a)));
        }
    }
}
pub fn take_peer(name: &str, owner: &str) -> Option<PeerAddr> {
    let h = TAB.with(|t| {
        let mut t = t.borrow_mut();
        if t.given.get(name).map(String::as_str) != Some(owner) {
            return None;
        }
        match t.handles.remove(name) {
            Some(HandleV::Addr(a)) => Some(a),
            Some(other) => {
                t.handles.insert(name.to_string(), other);
                None
            }
            None => None,
        }
    })?;
    match h.into_any().downcast::<Addr<H<0>>>() {
        Ok(a) => Some(PeerAddr { name: name.to_string(), addr: Some(*a) }),
        Err(_) => panic!("harness: peer handle is not an Addr<H<0>>"),
    }
}

/// A handle that was given to actor `owner` (scenario op `give`), to be registered as its child.
pub fn take_child(name: &str, owner: &str) -> Option<Box<dyn AddrLike>> {
    TAB.with(|t| {
        let mut t = t.borrow_mut();
        if t.given.get(name).map(String::as_str) != Some(owner) {
            return None;
        }
        match t.handles.remove(name) {
            Some(HandleV::Addr(a)) => Some(a),
            Some(other) => {
                t.handles.insert(name.to_string(), other);
                None
            }
            None => None,
        }
    })
}
/// Called by the harness actor when it starts: binds the context id of a registry-spawned instance.
pub fn bind_name(aid: u64, name: &str) {
    TAB.with(|t| {
        t.borrow_mut().names.entry(aid).or_insert_with(|| name.to_string());
    });
}
/// What is KNOWN (the id read from a handle / from the actor's own context) overrides what the executor predicted from
/// the spawn order: a library that hands out context ids differently must not confuse the harness.
pub fn rebind_name(aid: u64, name: &str) {
    TAB.with(|t| {
        t.borrow_mut().names.insert(aid, name.to_string());
    });
}
fn actor_of(aid: u64) -> String {
    // (an id nobody announced - the library handed out context ids in an unforeseen way: "*" = not identified, the
    // specification then judges the operation by its result alone)
    TAB.with(|t| t.borrow().names.get(&aid).cloned()).unwrap_or_else(|| "*".to_string())
}

// ---------------------------------------------------------------------------------------------

struct Res {
    res: &'static str,
    pos: usize,
    inst: u64,
    a: String,
}
fn r(res: &'static str, a: String) -> Res {
    Res { res, pos: 0, inst: 0, a }
}
fn okerr<T>(x: &HResult<T>) -> &'static str {
    if x.is_ok() { "ok" } else { "err" }
}

fn spawn_actor(c: &str, o: &Op) -> Res {
    match o.cfg.ty.as_str() {
        "0" => spawn_actor_k::<0>(c, o),
        "1" => spawn_actor_k::<1>(c, o),
        "2" => spawn_actor_k::<2>(c, o),
        t => panic!("harness: actor type {t}"),
    }
}

async fn registry_op<const K: usize>(o: &Op) -> Res {
    match o.op.as_str() {
        "from_registry" => {
            let a = H::<K>::from_registry().await;
            let name = actor_of(a.__verif_id());
            put_h(&o.nh, HandleV::Addr(Box::new(a)));
            r("ok", name)
        }
        "setup" => {
            let _ = H::<K>::setup().await;
            let name = H::<K>::try_from_registry().map(|a| actor_of(a.__verif_id())).unwrap_or_else(|| "none".into());
            r("ok", name)
        }
        "unregister" => match Addr::<H<K>>::unregister().await {
            Some(a) => {
                let name = actor_of(a.__verif_id());
                put_h(&o.nh, HandleV::Addr(Box::new(a)));
                r("some", name)
            }
            None => r("none", "none".into()),
        },
        "try_from_registry" => {
            let cur = registered_name::<K>();
            match H::<K>::try_from_registry() {
                Some(a) => {
                    let name = actor_of(a.__verif_id());
                    put_h(&o.nh, HandleV::Addr(Box::new(a)));
                    r("ok", name)
                }
                None => r("none", cur),
            }
        }
        "already_running" => {
            let cur = registered_name::<K>();
            match H::<K>::already_running().await {
                None => r("none", cur),
                Some(true) => r("true", cur),
                Some(false) => r("false", cur),
            }
        }
        other => panic!("harness: registry op {other}"),
    }
}
/// Name of the instance registered for type K right now, for the log only.  The harness keeps its
/// own record of what the API returned last; it does not look into the registry.
fn registered_name<const K: usize>() -> String {
    "*".into()
}

fn spawn_actor_k<const K: usize>(c: &str, o: &Op) -> Res {
    let ex = crate::actors::exec();
    WORLD.with(|w| {
        w.borrow_mut().scripts.insert(o.a.clone(), ActorScripts { sscr: o.cfg.sscr.clone(), pscr: o.cfg.pscr.clone(), fscr: o.cfg.fscr.clone(), iscr: o.cfg.iscr.clone(), tscr: o.cfg.tscr.clone() })
    });
    ex.label_next_actor(&o.a);
    let cf = &o.cfg;
    let plain = cf.cap == -1 && cf.strat == "restart" && cf.tmo < 0 && !cf.failto && !cf.stream;
    if plain && o.entry == "default" {
        // DefaultSpawnable: the library makes the value (Default::default) and spawns it on an unbounded mailbox
        use hannibal::spawner::DefaultSpawnable;
        let hv = if cf.owning {
            HandleV::Owning(Box::new(<H<K> as DefaultSpawnable<_>>::spawn_owning().expect("spawn_owning (default)")))
        } else {
            HandleV::Addr(Box::new(<H<K> as DefaultSpawnable<_>>::spawn_default().expect("spawn_default")))
        };
        let aid = hv.aid();
        if actor_of(aid) != o.a {
            rebind_name(aid, &o.a);
        }
        put_h(&o.nh, hv);
        return r("ok", o.a.clone());
    }
    let actor = H::<K>::new();
    if plain && o.entry == "with" && !cf.owning {
        // SpawnableWith: the caller names the spawner and gets the task handle next to the address
        use hannibal::spawner::SpawnableWith;
        let (addr, handle) = actor.spawn_with::<hannibal::spawner::TokioSpawner>();
        handle.detach();
        let hv = HandleV::Addr(Box::new(addr));
        let aid = hv.aid();
        if actor_of(aid) != o.a {
            rebind_name(aid, &o.a);
        }
        put_h(&o.nh, hv);
        return r("ok", o.a.clone());
    }
    let hv = if cf.stream {
        let st = std::sync::Arc::new(std::sync::Mutex::new(crate::actors::StreamState { ready: cf.items0, next: 1, ended: cf.ended0, waker: None }));
        WORLD.with(|w| w.borrow_mut().streams.insert(o.a.clone(), st.clone()));
        let stream = crate::actors::HStream(st);
        if cf.cap == -1 && o.entry == "trait" {
            use hannibal::spawner::StreamSpawnable;
            if cf.owning {
                HandleV::Owning(Box::new(actor.spawn_owning_on_stream(stream).expect("spawn_owning_on_stream")))
            } else {
                HandleV::Addr(Box::new(actor.spawn_on_stream(stream).expect("spawn_on_stream")))
            }
        } else {
            let mut base = hannibal::build(actor);
            if cf.tmo >= 0 {
                base = base.timeout(Duration::from_millis(cf.tmo as u64));
            }
            if cf.failto {
                base = base.fail_on_timeout(true);
            }
            let b = if cf.cap >= 0 { base.bounded_on_stream(cf.cap as usize, stream) } else { base.on_stream(stream) };
            if cf.owning { HandleV::Owning(Box::new(b.spawn_owning())) } else { HandleV::Addr(Box::new(b.spawn())) }
        }
    } else if plain && !o.entry.starts_with("builder") {
        if cf.owning { HandleV::Owning(Box::new(actor.spawn_owning())) } else { HandleV::Addr(Box::new(actor.spawn())) }
    } else {
        // the configuration methods exist on both builder stages and in any order (entry "builder:<k>")
        let variant: u32 = o.entry.strip_prefix("builder:").and_then(|k| k.parse().ok()).unwrap_or(0);
        let d = Duration::from_millis(cf.tmo.max(0) as u64);
        let mut base = hannibal::build(actor);
        match variant {
            0 => {
                if cf.tmo >= 0 {
                    base = base.timeout(d);
                }
                if cf.failto {
                    base = base.fail_on_timeout(true);
                }
            }
            1 => {
                if cf.failto {
                    base = base.fail_on_timeout(true);
                }
                if cf.tmo >= 0 {
                    base = base.timeout(d);
                }
            }
            _ => {}
        }
        let mut ch = if cf.cap >= 0 { base.bounded(cf.cap as usize) } else { base.unbounded() };
        match variant {
            2 => {
                if cf.tmo >= 0 {
                    ch = ch.timeout(d);
                }
                if cf.failto {
                    ch = ch.fail_on_timeout(true);
                }
            }
            3 => {
                if cf.failto {
                    ch = ch.fail_on_timeout(true);
                }
                if cf.tmo >= 0 {
                    ch = ch.timeout(d);
                }
            }
            _ => {}
        }
        if o.entry == "builder_register" {
            // the builder's terminal `register()`: the spawn happens inside that call, when the scenario's next
            // operation (`register` on this handle) runs - nothing can be scheduled in between
            macro_rules! defer {
                ($b:expr) => {{
                    let b = $b;
                    let name = o.a.clone();
                    let f: PendingReg = Box::new(move || {
                        crate::actors::exec().label_next_actor(&name);
                        Box::pin(async move {
                            match b.register().await {
                                Ok((me, old)) => Ok((Box::new(me) as Box<dyn AddrLike>, old.map(|x| Box::new(x) as Box<dyn AddrLike>))),
                                Err(e) => Err(e),
                            }
                        })
                    });
                    TAB.with(|t| t.borrow_mut().pending_reg.insert(o.nh.clone(), f));
                }};
            }
            match cf.strat.as_str() {
                "restart" => defer!(ch),
                "recreate" => defer!(ch.recreate_from_default()),
                "none" => defer!(ch.non_restartable()),
                s => panic!("harness: strategy {s}"),
            }
            return r("ok", o.a.clone());
        }
        macro_rules! fin {
            ($b:expr) => {
                if cf.owning { HandleV::Owning(Box::new($b.spawn_owning())) } else { HandleV::Addr(Box::new($b.spawn())) }
            };
        }
        match cf.strat.as_str() {
            "restart" => fin!(ch),
            "recreate" => fin!(ch.recreate_from_default()),
            "none" => fin!(ch.non_restartable()),
            s => panic!("harness: strategy {s}"),
        }
    };
    let aid = hv.aid();
    if actor_of(aid) != o.a {
        rebind_name(aid, &o.a);
    }
    put_h(&o.nh, hv);
    let _ = c;
    r("ok", o.a.clone())
}

fn desc(c: &str, n: i64, o: &Op) -> Desc {
    Desc { m: (c.to_string(), n), scr: o.scr.clone(), src: "mailbox" }
}

async fn run_op(c: &str, n: i64, o: &Op) -> Res {
    use HandleV::*;
    match o.op.as_str() {
        "spawn" => spawn_actor(c, o),
        "yield" => {
            YieldFut::new("op").await;
            r("ok", "none".into())
        }
        "feed" | "end_stream" => {
            let st = WORLD.with(|w| w.borrow().streams.get(&o.a).cloned()).expect("harness: no stream for actor");
            let w = {
                let mut g = st.lock().unwrap();
                if o.op == "feed" {
                    if !g.ended {
                        g.ready += o.d;
                    }
                } else {
                    g.ended = true;
                }
                g.waker.take()
            };
            if let Some(w) = w {
                w.wake();
            }
            r("ok", o.a.clone())
        }
        "sleep" => {
            let f = crate::actors::exec().sleep_ticks(o.d as u64);
            f.await;
            r("ok", "none".into())
        }
        "send" => {
            let h = Held::take(&o.h);
            let a = actor_of(h.get().aid());
            let x = match h.get() {
                Addr(x) => x.send(SMsg(desc(c, n, o))).await,
                Owning(x) => x.send(SMsg(desc(c, n, o))).await,
                Sender(x) => x.send(SMsg(desc(c, n, o))).await,
                WSender(x) => x.try_send(SMsg(desc(c, n, o))).await,
                _ => panic!("harness: send on wrong kind"),
            };
            drop(h);
            r(okerr(&x), a)
        }
        "force_send" => {
            let h = take_h(&o.h);
            let a = actor_of(h.aid());
            let x = match &h {
                WSender(x) => x.try_force_send(SMsg(desc(c, n, o))),
                _ => panic!("harness: force_send on wrong kind"),
            };
            put_h(&o.h, h);
            r(okerr(&x), a)
        }
        "call" => {
            let h = Held::take(&o.h);
            let a = actor_of(h.get().aid());
            let x = match h.get() {
                Addr(x) => x.call(CMsg(desc(c, n, o))).await,
                Owning(x) => x.call(CMsg(desc(c, n, o))).await,
                Caller(x) => x.call(CMsg(desc(c, n, o))).await,
                WCaller(x) => x.try_call(CMsg(desc(c, n, o))).await,
                _ => panic!("harness: call on wrong kind"),
            };
            drop(h);
            match x {
                Ok(rep) => {
                    assert!(rep.m == (c.to_string(), n) || true);
                    Res { res: if rep.m == (c.to_string(), n) { "ok" } else { "swapped" }, pos: rep.pos, inst: rep.inst, a }
                }
                Err(_) => r("err", a),
            }
        }
        "ping" => {
            let h = Held::take(&o.h);
            let a = actor_of(h.get().aid());
            let x = match h.get() {
                Addr(x) => x.ping().await,
                Owning(x) => x.ping().await,
                _ => panic!("harness: ping on wrong kind"),
            };
            drop(h);
            r(okerr(&x), a)
        }
        "stop" | "restart" | "try_stop" => {
            let mut h = take_h(&o.h);
            let a = actor_of(h.aid());
            let x = match (&mut h, o.op.as_str()) {
                (Addr(x), "stop") => x.stop(),
                (Addr(x), "restart") => x.restart(),
                (WAddr(x), "try_stop") => x.try_stop(),
                _ => panic!("harness: {} on wrong kind", o.op),
            };
            put_h(&o.h, h);
            r(okerr(&x), a)
        }
        "try_halt" => {
            let mut h = Held::take(&o.h);
            let a = actor_of(h.get().aid());
            let x = match h.get_mut() {
                WAddr(x) => x.try_halt().await,
                _ => panic!("harness: try_halt on wrong kind"),
            };
            drop(h);
            r(okerr(&x), a)
        }
        "halt" | "await" => {
            let h = take_h(&o.h);
            let a = actor_of(h.aid());
            let x = match h {
                Addr(x) => {
                    if o.op == "halt" {
                        x.halt().await
                    } else {
                        x.wait().await
                    }
                }
                _ => panic!("harness: {} on wrong kind", o.op),
            };
            r(okerr(&x), a)
        }
        "await_ref" => {
            let mut h = Held::take(&o.h);
            let a = actor_of(h.get().aid());
            let x = match h.get_mut() {
                Addr(x) => x.wait_ref().await,
                _ => panic!("harness: await_ref on wrong kind"),
            };
            drop(h);
            r(okerr(&x), a)
        }
        "stopped" | "running" => {
            let h = take_h(&o.h);
            let a = actor_of(h.aid());
            let b = match (&h, o.op.as_str()) {
                (Addr(x), "stopped") => x.stopped(),
                (Addr(x), "running") => x.running(),
                (WAddr(x), "stopped") => x.stopped(),
                _ => panic!("harness: {} on wrong kind", o.op),
            };
            put_h(&o.h, h);
            r(if b { "true" } else { "false" }, a)
        }
        "clone" | "downgrade" | "sender" | "caller" | "weak_sender" | "weak_caller" | "to_addr" => {
            let h = take_h(&o.h);
            let via = match (&h, o.d) {
                (Addr(x), d) if d > 0 => x.convert_via(&o.op, d),
                _ => None,
            };
            let nh = if let Some(v) = via { v } else { match (&h, o.op.as_str()) {
                (Addr(x), "clone") => Addr(x.clone_box()),
                (Sender(x), "clone") => Sender(x.clone()),
                (Caller(x), "clone") => Caller(x.clone()),
                (WAddr(x), "clone") => WAddr(x.clone_box()),
                (WSender(x), "clone") => WSender(x.clone()),
                (WCaller(x), "clone") => WCaller(x.clone()),
                (Addr(x), "downgrade") => WAddr(x.downgrade()),
                (Sender(x), "downgrade") => WSender(x.downgrade()),
                (Caller(x), "downgrade") => WCaller(x.downgrade()),
                (Addr(x), "sender") => Sender(x.sender()),
                (Addr(x), "caller") => Caller(x.caller()),
                (Addr(x), "weak_sender") => WSender(x.weak_sender()),
                (Addr(x), "weak_caller") => WCaller(x.weak_caller()),
                (Owning(x), "sender") => Sender(x.addr().sender()),
                (Owning(x), "caller") => Caller(x.addr().caller()),
                (Owning(x), "weak_sender") => WSender(x.addr().weak_sender()),
                (Owning(x), "weak_caller") => WCaller(x.addr().weak_caller()),
                (Owning(x), "to_addr") => Addr(x.to_addr()),
                _ => panic!("harness: {} on wrong kind", o.op),
            } };
            let a = actor_of(nh.aid());
            put_h(&o.h, h);
            put_h(&o.nh, nh);
            r("ok", a)
        }
        "upgrade" => {
            let h = take_h(&o.h);
            let a0 = actor_of(h.aid());
            let nh = match &h {
                WAddr(x) => x.upgrade().map(Addr),
                WSender(x) => x.upgrade().map(Sender),
                WCaller(x) => x.upgrade().map(Caller),
                _ => panic!("harness: upgrade on wrong kind"),
            };
            put_h(&o.h, h);
            match nh {
                Some(nh) => {
                    let a = actor_of(nh.aid());
                    put_h(&o.nh, nh);
                    r("ok", a)
                }
                None => r("none", a0),
            }
        }
        "publish" => {
            let m = (c.to_string(), n);
            let x = match o.ty.as_str() {
                "1" => Broker::publish(Tp::<1>(m)).await,
                "2" => Broker::publish(Tp::<2>(m)).await,
                t => panic!("harness: topic {t}"),
            };
            let name = match o.ty.as_str() {
                "1" => Broker::<Tp<1>>::try_from_registry().map(|a| actor_of(a.__verif_id())),
                _ => Broker::<Tp<2>>::try_from_registry().map(|a| actor_of(a.__verif_id())),
            };
            r(okerr(&x), name.unwrap_or_else(|| "*".into()))
        }
        "bpublish" => {
            let h = take_h(&o.h);
            let a = actor_of(h.aid());
            let x = match &h {
                Addr(x) => x.bpublish((c.to_string(), n)).await,
                _ => panic!("harness: bpublish on wrong kind"),
            };
            put_h(&o.h, h);
            r(okerr(&x), a)
        }
        "bsubscribe" | "bunsubscribe" => {
            let h = take_h(&o.h);
            let h2 = take_h(&o.h2);
            let a = actor_of(h.aid());
            let x = {
                let sub: &dyn AddrLike = match &h2 {
                    Addr(y) => y.as_ref(),
                    Owning(y) => y.addr(),
                    _ => panic!("harness: subscriber handle of wrong kind"),
                };
                match &h {
                    Addr(x) => x.bsubscribe(sub, o.op == "bunsubscribe").await,
                    _ => panic!("harness: bsubscribe on wrong kind"),
                }
            };
            put_h(&o.h, h);
            put_h(&o.h2, h2);
            r(okerr(&x), a)
        }
        "from_registry" | "setup" | "unregister" | "try_from_registry" | "already_running" => match o.ty.as_str() {
            "B1" => {
                let a = Broker::<Tp<1>>::from_registry().await;
                let name = actor_of(a.__verif_id());
                put_h(&o.nh, HandleV::Addr(Box::new(a)));
                r("ok", name)
            }
            "B2" => {
                let a = Broker::<Tp<2>>::from_registry().await;
                let name = actor_of(a.__verif_id());
                put_h(&o.nh, HandleV::Addr(Box::new(a)));
                r("ok", name)
            }
            "0" => registry_op::<0>(o).await,
            "1" => registry_op::<1>(o).await,
            "2" => registry_op::<2>(o).await,
            t => panic!("harness: service type {t}"),
        },
        "register" => {
            let pending = TAB.with(|t| t.borrow_mut().pending_reg.remove(&o.h));
            let (x, a) = if let Some(mk) = pending {
                let x = mk().await;
                let a = match &x {
                    Ok((me, _)) => actor_of(me.aid()),
                    Err(_) => "*".to_string(),
                };
                (x, a)
            } else {
                let h = take_h(&o.h);
                let a = actor_of(h.aid());
                let x = match h {
                    Addr(x) => x.register().await,
                    _ => panic!("harness: register on wrong kind"),
                };
                (x, a)
            };
            match x {
                Ok((me, old)) => {
                    put_h(&o.nh, Addr(me));
                    match old {
                        Some(old) => {
                            put_h(&o.nh2, Addr(old));
                            r("some", a)
                        }
                        None => r("ok", a),
                    }
                }
                Err(_) => r("err", a),
            }
        }
        "replace" => {
            let h = take_h(&o.h);
            let a = actor_of(h.aid());
            let x = match h {
                Addr(x) => x.replace().await,
                _ => panic!("harness: replace on wrong kind"),
            };
            match x {
                Some(old) => {
                    let an = actor_of(old.aid());
                    put_h(&o.nh2, Addr(old));
                    r("some", an)
                }
                None => r("none", a),
            }
        }
        "drop" => {
            let h = take_h(&o.h);
            let a = actor_of(h.aid());
            drop(h);
            r("ok", a)
        }
        "claim" => {
            let a = TAB.with(|t| t.borrow().handles.get(&o.h).map(|h| actor_of(h.aid()))).expect("harness: claim unknown handle");
            r("ok", a)
        }
        "try_publish" => {
            let m = (c.to_string(), n);
            let x = match o.ty.as_str() {
                "1" => Broker::try_publish(Tp::<1>(m)).await,
                _ => Broker::try_publish(Tp::<2>(m)).await,
            };
            match x {
                Some(Ok(())) => r("ok", "*".into()),
                Some(Err(_)) => r("err", "*".into()),
                None => r("none", "*".into()),
            }
        }
        "give" => {
            let a = TAB.with(|t| t.borrow().handles.get(&o.h).map(|h| actor_of(h.aid()))).expect("harness: give unknown handle");
            TAB.with(|t| t.borrow_mut().given.insert(o.h.clone(), o.to.clone()));
            r("ok", a)
        }
        "detach" => {
            let h = take_h(&o.h);
            let nh = match h {
                Owning(x) => Addr(x.detach()),
                _ => panic!("harness: detach on wrong kind"),
            };
            let a = actor_of(nh.aid());
            put_h(&o.nh, nh);
            r("ok", a)
        }
        "join" if o.d == 5 => {
            // the join future is made first, the OwningAddr is detached, then the future is awaited: it still yields the actor
            let h = take_h(&o.h);
            let a = actor_of(h.aid());
            let j = match h {
                Owning(mut x) => {
                    let j = x.join();
                    let plain = x.detach();
                    put_h(&o.nh, Addr(plain));
                    j.await
                }
                _ => panic!("harness: join on wrong kind"),
            };
            match j {
                Some(j) => Res { res: "some", pos: j.st_len, inst: j.inst, a },
                None => r("none", a),
            }
        }
        "join" => {
            let mut h = Held::take(&o.h);
            let a = actor_of(h.get().aid());
            // d = 2: an earlier join future that was polled once and is parked must not block a later join
            //        (the later one finds the handle taken and returns None at once);
            // d = 3: a join future that was created but never polled, then dropped, takes nothing with it.
            // For the specification all of these are the plain `join` operation.
            let j = match h.get_mut() {
                Owning(x) => match o.d {
                    2 => {
                        let mut f1 = x.join();
                        match futures::poll!(&mut f1) {
                            std::task::Poll::Ready(r) => r,
                            std::task::Poll::Pending => {
                                let second = x.join().await;
                                assert!(second.is_none(), "harness: second join returned a value");
                                f1.await
                            }
                        }
                    }
                    3 => {
                        drop(x.join());
                        x.join().await
                    }
                    _ => x.join().await,
                },
                _ => panic!("harness: join on wrong kind"),
            };
            drop(h);
            match j {
                Some(j) => Res { res: "some", pos: j.st_len, inst: j.inst, a },
                None => r("none", a),
            }
        }
        "consume" => {
            let h = take_h(&o.h);
            let a = actor_of(h.aid());
            let j = match h {
                Owning(x) => x.consume().await,
                _ => panic!("harness: consume on wrong kind"),
            };
            match j {
                Ok(j) => Res { res: "some", pos: j.st_len, inst: j.inst, a },
                Err(_) => r("err", a),
            }
        }
        "consume_sync" => {
            let h = take_h(&o.h);
            let a = actor_of(h.aid());
            let f = match h {
                Owning(x) => x.consume_sync(),
                _ => panic!("harness: consume_sync on wrong kind"),
            };
            match f {
                Ok(f) => match f.await {
                    Some(j) => Res { res: "some", pos: j.st_len, inst: j.inst, a },
                    None => r("none", a),
                },
                Err(_) => r("err", a),
            }
        }
        other => panic!("harness: unknown op {other}"),
    }
}

async fn client(name: String, prog: Vec<Op>) {
    let mut n = 0i64;
    let mut unclaimed = std::collections::HashSet::<String>::new();
    for o in prog.iter() {
        // an operation whose handle does not exist (a failed upgrade earlier) is skipped silently
        // (so is everything on a pooled handle whose `claim` came too early: it never became this client's)
        if o.h != "none" && (unclaimed.contains(&o.h) || !TAB.with(|t| t.borrow().handles.contains_key(&o.h) || t.borrow().pending_reg.contains_key(&o.h))) {
            if o.op == "claim" {
                unclaimed.insert(o.h.clone());
            }
            continue;
        }
        n += 1;
        ev(json!({"ev": "op_begin", "task": name, "n": n, "o": o}));
        // d = 1 on an awaiting operation: poll it once and, if it is still pending, drop it (a select! that lost, a timeout);
        // d = 4: the same after up to three polls (the caller gives up a little later: the operation is under way)
        let cancellable = (o.d == 1 || o.d == 4)
            && matches!(o.op.as_str(), "send" | "call" | "ping" | "await_ref" | "try_halt" | "join" | "halt" | "await" | "consume" | "from_registry" | "setup");
        let mut self_woken = false;
        let res = if cancellable {
            let ex = crate::actors::exec();
            let polls_allowed = if o.d == 4 { 3 } else { 1 };
            let mut f = Box::pin(run_op(&name, n, o));
            let mut k = 0;
            loop {
                let before = ex.task_woken(&name);
                match futures::poll!(f.as_mut()) {
                    std::task::Poll::Ready(res) => break res,
                    std::task::Poll::Pending => {
                        k += 1;
                        if k >= polls_allowed {
                            // did the call merely yield to the executor (it asked to be polled again at once), or is it
                            // waiting for something?  Only in the first case may it have done nothing yet.
                            self_woken = before || ex.task_woken(&name);
                            drop(f);
                            break r("cancelled", "*".into());
                        }
                        // suspend this client until the operation's waker (the client's own) is invoked
                        let mut once = false;
                        futures::future::poll_fn(|_| {
                            if once {
                                std::task::Poll::Ready(())
                            } else {
                                once = true;
                                std::task::Poll::Pending
                            }
                        })
                        .await;
                    }
                }
            }
        } else {
            run_op(&name, n, o).await
        };
        if self_woken {
            ev(json!({"ev": "op_end", "task": name, "n": n, "res": res.res, "pos": res.pos, "inst": res.inst, "a": res.a, "woken": true}));
        } else {
            ev(json!({"ev": "op_end", "task": name, "n": n, "res": res.res, "pos": res.pos, "inst": res.inst, "a": res.a}));
        }
    }
}

/// Run one scenario on a fresh executor; returns the trace lines and the decisions taken.
pub fn run(sc: &Scenario) -> (Vec<String>, Vec<String>) {
    let ex = Exec::new(sc.seed.wrapping_add(0x5bd1_e995));
    WORLD.with(|w| {
        let mut w = w.borrow_mut();
        *w = Default::default();
        w.exec = Some(ex.clone());
    });
    TAB.with(|t| *t.borrow_mut() = Tables::default());
    verif::install(Rc::new(ex.clone()));
    let _ = take_log();
    ev(json!({"ev": "reset", "task": "env", "sid": sc.id, "clients": sc.clients.keys().collect::<Vec<_>>()}));
    for (c, prog) in &sc.clients {
        ex.add(Box::pin(client(c.clone(), prog.clone())), c.clone(), Kind::Client);
    }
    let mut taken: Vec<String> = Vec::new();
    let mut cancels = sc.cancels;
    let mut steps = 0usize;
    let max_steps = sc.max_steps.unwrap_or(5000);
    let mut script = sc.decisions.clone().map(|d| d.into_iter());
    // "main" (set-up client) always runs first
    let mut first = sc.clients.contains_key("main");
    let mut unavailable = false;
    loop {
        let opts = ex.options(sc.horizon, sc.idle_only, cancels);
        let mut non_cancel: Vec<&Decision> = opts.iter().filter(|d| !matches!(d, Decision::Cancel(_))).collect();
        if !sc.starve.is_empty() && script.is_none() {
            let fed: Vec<&Decision> = non_cancel.iter().copied().filter(|d| !matches!(d, Decision::Pick(t) if sc.starve.contains(t))).collect();
            if !fed.is_empty() {
                non_cancel = fed;
            }
        }
        if non_cancel.is_empty() || steps >= max_steps {
            break;
        }
        let scripted = script.as_mut().and_then(|it| it.next());
        if script.is_some() && scripted.is_none() {
            // the dictated schedule is exhausted (the specification's behaviour is terminal there); whatever the real
            // executor can still do - a task that was woken although the spec says it cannot go on - is run to the end
            script = None;
        }
        let d: Decision = if let Some(s) = scripted {
            Decision::from_s(&s)
        } else if first {
            Decision::Pick("main".into())
        } else {
            let cancel_opts: Vec<&Decision> = opts.iter().filter(|d| matches!(d, Decision::Cancel(_))).collect();
            if !cancel_opts.is_empty() && (ex.rnd(100) as u32) < sc.cancel_pct {
                cancel_opts[ex.rnd(cancel_opts.len())].clone()
            } else {
                non_cancel[ex.rnd(non_cancel.len())].clone()
            }
        };
        first = false;
        if !opts.contains(&d) {
            // a decision dictated from outside (a TLC-generated behaviour) is not possible here: the real task is
            // not runnable although the specification says it is.  That is an observation, not a harness error.
            ev(json!({"ev": "unavailable", "task": "env", "what": d.to_s()}));
            unavailable = true;
            break;
        }
        if let Decision::Cancel(_) = d {
            cancels -= 1;
        }
        ex.apply(&d);
        taken.push(d.to_s());
        steps += 1;
    }
    let unresolved: Vec<String> = ex.alive(Kind::Client);
    let mut alive = ex.alive(Kind::Actor);
    alive.extend(ex.alive(Kind::Timer));
    if !unavailable {
        ev(json!({"ev": "quiescent", "task": "env", "unresolved": unresolved, "alive": alive, "steps": steps, "capped": steps >= max_steps}));
    }
    let log = take_log();
    // tear down quietly: nothing below is part of the trace
    TAB.with(|t| *t.borrow_mut() = Tables::default());
    ex.teardown();
    hannibal::service::__verif_registry_clear();
    verif::uninstall();
    let _ = take_log();
    (log, taken)
}

pub fn parse(v: &Value) -> Scenario {
    serde_json::from_value(v.clone()).expect("scenario json")
}

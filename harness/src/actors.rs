//! The harness actor: executable twin of the handler / callback script semantics of the spec.
use crate::exec::{Exec, YieldFut, cur_task, ev};
use hannibal::{RestartableActor, prelude::*};
use serde::{Deserialize, Serialize};
use serde_json::json;
use std::{cell::RefCell, collections::HashMap};

#[derive(Clone, Debug, Serialize, Deserialize, PartialEq)]
pub struct Effect {
    pub e: String,
    #[serde(default)]
    pub n: i64,
    #[serde(default)]
    pub s: String,
}

pub type MsgId = (String, i64);

/// What a message makes the handler do.
#[derive(Clone, Debug)]
pub struct Desc {
    pub m: MsgId,
    pub scr: Vec<Effect>,
    pub src: &'static str,
}

pub struct SMsg(pub Desc);
impl Message for SMsg {
    type Response = ();
}
pub struct CMsg(pub Desc);
#[derive(Clone, Debug)]
pub struct Reply {
    pub m: MsgId,
    pub pos: usize,
    pub inst: u64,
}
impl Message for CMsg {
    type Response = Reply;
}

/// Tick of a timer. `Clone` is what `Context::interval` calls once per firing: the clone gets the
/// next tick number and the firing is logged (harness-owned code, no hook in the library needed).
pub struct Tick {
    pub timer: String,
    pub k: i64,
    pub ctr: std::sync::Arc<std::sync::atomic::AtomicI64>,
}
impl Tick {
    pub fn root(timer: &str) -> Self {
        Tick { timer: timer.to_string(), k: 0, ctr: Default::default() }
    }
    pub fn fire(timer: &str, ctr: &std::sync::Arc<std::sync::atomic::AtomicI64>) -> Self {
        let k = ctr.fetch_add(1, std::sync::atomic::Ordering::SeqCst) + 1;
        ev(json!({"ev": "timer_fire", "task": cur_task(), "timer": timer, "k": k}));
        Tick { timer: timer.to_string(), k, ctr: ctr.clone() }
    }
}
impl Clone for Tick {
    fn clone(&self) -> Self {
        Tick::fire(&self.timer, &self.ctr)
    }
}
impl Message for Tick {
    type Response = ();
}

/// Item of the harness-controlled stream an actor can be attached to.
pub struct Item(pub i64);
#[derive(Default)]
pub struct StreamState {
    pub ready: i64,
    pub next: i64,
    pub ended: bool,
    pub waker: Option<std::task::Waker>,
}
pub struct HStream(pub std::sync::Arc<std::sync::Mutex<StreamState>>);
impl futures::Stream for HStream {
    type Item = Item;
    fn poll_next(self: std::pin::Pin<&mut Self>, cx: &mut std::task::Context<'_>) -> std::task::Poll<Option<Item>> {
        let mut g = self.0.lock().unwrap();
        if g.ready > 0 {
            g.ready -= 1;
            g.next += 1;
            std::task::Poll::Ready(Some(Item(g.next - 1)))
        } else if g.ended {
            std::task::Poll::Ready(None)
        } else {
            g.waker = Some(cx.waker().clone());
            std::task::Poll::Pending
        }
    }
}

/// Broadcast messages for `register_child` / `send_to_children` (two buckets besides `()`).
#[derive(Clone)]
pub struct Bc(pub String, pub i64);
impl Message for Bc {
    type Response = ();
}
#[derive(Clone)]
pub struct Bc2(pub String, pub i64);
impl Message for Bc2 {
    type Response = ();
}

/// Topic message of the broker (two topics); carries the id of the publication.
#[derive(Clone)]
pub struct Tp<const T: usize>(pub MsgId);
impl<const T: usize> Message for Tp<T> {
    type Response = ();
}

/// Per-actor configuration of callback scripts (looked up by the actor task's name).
#[derive(Clone, Debug, Default, Serialize, Deserialize)]
pub struct ActorScripts {
    pub sscr: Vec<Vec<Effect>>,
    pub pscr: Vec<Effect>,
    pub fscr: Vec<Effect>,
    #[serde(default)]
    pub iscr: Vec<Effect>,
    #[serde(default)]
    pub tscr: Vec<Effect>,
}

#[derive(Default)]
pub struct World {
    pub exec: Option<Exec>,
    pub scripts: HashMap<String, ActorScripts>,
    pub ninst: u64,
    /// started() calls seen per actor name
    pub starts: HashMap<String, i64>,
    /// broadcasts issued per actor name
    pub bcasts: HashMap<String, i64>,
    /// unit broadcast copies handled per actor name
    pub units: HashMap<String, i64>,
    /// nested operations (subscribe / publish) started per actor name
    pub nested: HashMap<String, i64>,
    /// harness-controlled streams per actor name
    pub streams: HashMap<String, std::sync::Arc<std::sync::Mutex<StreamState>>>,
}
thread_local! { pub static WORLD: RefCell<World> = RefCell::new(World::default()); }

pub fn exec() -> Exec {
    WORLD.with(|w| w.borrow().exec.clone().expect("executor installed"))
}
fn new_inst() -> u64 {
    WORLD.with(|w| {
        let mut w = w.borrow_mut();
        w.ninst += 1;
        w.ninst
    })
}

pub struct H<const K: usize> {
    pub inst: u64,
    pub st: Vec<MsgId>,
    /// broadcasts issued by this actor's context (per actor task, survives recreate: kept in WORLD)
    unit_seen: i64,
}
impl<const K: usize> H<K> {
    pub fn new() -> Self {
        H { inst: new_inst(), st: Vec::new(), unit_seen: 0 }
    }
}
impl<const K: usize> Default for H<K> {
    fn default() -> Self {
        let h = Self::new();
        ev(json!({"ev": "default_new", "task": cur_task(), "ty": K.to_string(), "inst": h.inst}));
        h
    }
}

struct AbandonGuard {
    armed: bool,
    m: MsgId,
}
impl Drop for AbandonGuard {
    fn drop(&mut self) {
        if self.armed {
            ev(json!({"ev": "h_abandon", "task": cur_task(), "m": [self.m.0, self.m.1]}));
        }
    }
}

impl<const K: usize> H<K> {
    fn inc(&self, me: &str) -> i64 {
        WORLD.with(|w| *w.borrow().starts.get(me).unwrap_or(&0)) - 1
    }
    /// Run one script step. `Err` only for the "err" effect (used by `started`).
    async fn run_eff(&mut self, ctx: &mut Context<Self>, e: &Effect) -> Result<(), ()> {
        let me = cur_task();
        match e.e.as_str() {
            "yield" => YieldFut::new("script").await,
            "sleep" => {
                let f = exec().sleep_ticks(e.n as u64);
                ev(json!({"ev": "eff", "task": me, "e": "sleep", "n": e.n, "res": "ok"}));
                f.await
            }
            "ctx_stop" => {
                let r = ctx.stop();
                ev(json!({"ev": "eff", "task": me, "e": "ctx_stop", "n": 0, "res": if r.is_ok() {"ok"} else {"err"}}));
            }
            "ctx_restart" => {
                let r = ctx.restart();
                ev(json!({"ev": "eff", "task": me, "e": "ctx_restart", "n": 0, "res": if r.is_ok() {"ok"} else {"err"}}));
            }
            "interval" | "interval_with" | "delayed_send" | "delayed_exec" => {
                let d = std::time::Duration::from_millis(e.n as u64);
                // registered name = script name + incarnation (a restarted `started` registers afresh)
                let name = format!("{}.{}", e.s, self.inc(&me));
                exec().label_next_timer(&name);
                match e.e.as_str() {
                    "interval" => ctx.interval(Tick::root(&name), d),
                    "interval_with" => {
                        let ctr: std::sync::Arc<std::sync::atomic::AtomicI64> = Default::default();
                        ctx.interval_with(move || Tick::fire(&name, &ctr), d)
                    }
                    "delayed_send" => {
                        let ctr: std::sync::Arc<std::sync::atomic::AtomicI64> = Default::default();
                        ctx.delayed_send(move || Tick::fire(&name, &ctr), d)
                    }
                    _ => ctx.delayed_exec(
                        async move {
                            // the body does something, waits for something, and goes on
                            ev(json!({"ev": "timer_fire", "task": cur_task(), "timer": name, "k": 1}));
                            crate::exec::YieldFut::new("exec").await;
                            ev(json!({"ev": "exec_done", "task": cur_task(), "timer": name}));
                        },
                        d,
                    ),
                }
                ev(json!({"ev": "eff", "task": me, "e": e.e, "n": e.n, "s": e.s, "res": "ok"}));
            }
            "add_child" | "register_bc" | "register_bc2" => {
                let res = match crate::scenario::take_child(&e.s, &me) {
                    Some(child) => {
                        match e.e.as_str() {
                            "add_child" => ctx.add_child(child.into_sender_unit()),
                            "register_bc" => ctx.register_child::<Bc>(child.into_sender_bc()),
                            _ => ctx.register_child::<Bc2>(child.into_sender_bc2()),
                        }
                        "ok"
                    }
                    None => "none",
                };
                ev(json!({"ev": "eff", "task": me, "e": e.e, "n": 0, "s": e.s, "res": res}));
            }
            "broadcast_unit" | "broadcast_bc" | "broadcast_bc2" => {
                let bn = WORLD.with(|w| {
                    let mut w = w.borrow_mut();
                    let n = w.bcasts.entry(me.clone()).or_insert(0);
                    *n += 1;
                    *n
                });
                match e.e.as_str() {
                    "broadcast_unit" => ctx.send_to_children(()),
                    "broadcast_bc" => ctx.send_to_children(Bc(me.clone(), 1000 + bn)),
                    _ => ctx.send_to_children(Bc2(me.clone(), 1000 + bn)),
                }
                ev(json!({"ev": "eff", "task": me, "e": e.e, "n": 0, "s": "", "res": "ok"}));
            }
            "ctx_weak_address" | "ctx_weak_sender" | "ctx_weak_caller" => {
                let res = crate::scenario::put_ctx_weak::<K>(&e.s, e.e.as_str(), ctx);
                ev(json!({"ev": "eff", "task": me, "e": e.e, "n": 0, "s": e.s, "res": res}));
            }
            "call_peer" | "send_peer" => {
                let res = match crate::scenario::take_peer(&e.s, &me) {
                    Some(peer) => {
                        let n = WORLD.with(|w| {
                            let mut w = w.borrow_mut();
                            let n = w.nested.entry(me.clone()).or_insert(0);
                            *n += 1;
                            *n
                        });
                        let d = Desc { m: (me.clone(), n), scr: vec![], src: "mailbox" };
                        let ok = {
                            let addr = peer.addr.as_ref().expect("peer addr");
                            if e.e == "call_peer" { addr.call(CMsg(d)).await.is_ok() } else { addr.send(SMsg(d)).await.is_ok() }
                        };
                        drop(peer);
                        if ok { "ok" } else { "err" }
                    }
                    None => "none",
                };
                ev(json!({"ev": "eff", "task": cur_task(), "e": e.e, "n": 0, "s": e.s, "res": res}));
            }
            "subscribe" => {
                WORLD.with(|w| *w.borrow_mut().nested.entry(me.clone()).or_insert(0) += 1);
                let r = match e.n {
                    1 => ctx.subscribe::<Tp<1>>().await,
                    _ => ctx.subscribe::<Tp<2>>().await,
                };
                ev(json!({"ev": "eff", "task": cur_task(), "e": "subscribe", "n": e.n, "res": if r.is_ok() {"ok"} else {"err"}}));
            }
            "publish" => {
                let n = WORLD.with(|w| {
                    let mut w = w.borrow_mut();
                    let n = w.nested.entry(me.clone()).or_insert(0);
                    *n += 1;
                    *n
                });
                // (subscribe counts as a nested operation too: keep the counter in step with the spec)
                let m = (me.clone(), 2000 + n);
                let r = match e.n {
                    1 => ctx.publish(Tp::<1>(m)).await,
                    _ => ctx.publish(Tp::<2>(m)).await,
                };
                ev(json!({"ev": "eff", "task": cur_task(), "e": "publish", "n": e.n, "res": if r.is_ok() {"ok"} else {"err"}}));
            }
            "panic" => {
                ev(json!({"ev": "eff", "task": me, "e": "panic", "n": 0, "res": "ok"}));
                panic!("scripted panic");
            }
            "err" => {
                ev(json!({"ev": "eff", "task": me, "e": "err", "n": 0, "res": "ok"}));
                return Err(());
            }
            other => panic!("harness: unknown effect {other}"),
        }
        Ok(())
    }

    async fn work(&mut self, ctx: &mut Context<Self>, d: Desc) -> Reply {
        let me = cur_task();
        ev(json!({"ev": "h_begin", "task": me, "m": [d.m.0, d.m.1], "inst": self.inst, "inc": self.inc(&me), "src": d.src}));
        let mut guard = AbandonGuard { armed: true, m: d.m.clone() };
        for e in &d.scr {
            let _ = self.run_eff(ctx, e).await;
        }
        self.st.push(d.m.clone());
        guard.armed = false;
        let pos = self.st.len();
        ev(json!({"ev": "h_end", "task": cur_task(), "m": [d.m.0, d.m.1], "pos": pos}));
        Reply { m: d.m, pos, inst: self.inst }
    }

    async fn callback(&mut self, ctx: &mut Context<Self>, name: &str, scr: Vec<Effect>) -> Result<(), ()> {
        let me = cur_task();
        ev(json!({"ev": "cb", "task": me, "name": format!("{name}b"), "inst": self.inst, "inc": self.inc(&me)}));
        for e in &scr {
            self.run_eff(ctx, e).await?;
        }
        ev(json!({"ev": "cb", "task": cur_task(), "name": format!("{name}e"), "inst": self.inst, "inc": self.inc(&me)}));
        Ok(())
    }
}

#[derive(Debug)]
struct ScriptedError;
impl std::fmt::Display for ScriptedError {
    fn fmt(&self, f: &mut std::fmt::Formatter<'_>) -> std::fmt::Result {
        write!(f, "scripted start error")
    }
}
impl std::error::Error for ScriptedError {}

/// Instances spawned by the registry (no scenario entry): one yield in started and in stopped.
fn service_scripts() -> ActorScripts {
    let y = Effect { e: "yield".into(), n: 0, s: String::new() };
    ActorScripts { sscr: vec![vec![y.clone()]], pscr: vec![y], fscr: vec![], iscr: vec![], tscr: vec![] }
}

impl<const K: usize> Actor for H<K> {
    async fn started(&mut self, ctx: &mut Context<Self>) -> DynResult<()> {
        let me = cur_task();
        crate::scenario::rebind_name(hannibal::verif::VerifId::__verif_id(&*ctx), &me);
        let (scr, _inc) = WORLD.with(|w| {
            let mut w = w.borrow_mut();
            let n = w.starts.entry(me.clone()).or_insert(0);
            *n += 1;
            let inc = *n - 1;
            let sc = w.scripts.get(&me).cloned().unwrap_or_else(service_scripts);
            let scr = if sc.sscr.is_empty() { vec![] } else { sc.sscr[(inc as usize).min(sc.sscr.len() - 1)].clone() };
            (scr, inc)
        });
        self.callback(ctx, "s", scr).await.map_err(|_| Box::new(ScriptedError) as Box<dyn std::error::Error + Send + Sync>)
    }
    async fn stopped(&mut self, ctx: &mut Context<Self>) {
        let me = cur_task();
        let scr = WORLD.with(|w| w.borrow().scripts.get(&me).cloned().unwrap_or_else(service_scripts).pscr);
        let _ = self.callback(ctx, "p", scr).await;
    }
}
impl<const K: usize> StreamHandler<Item> for H<K> {
    async fn handle(&mut self, ctx: &mut Context<Self>, item: Item) {
        let me = cur_task();
        let scr = WORLD.with(|w| w.borrow().scripts.get(&me).cloned().unwrap_or_default().iscr);
        self.work(ctx, Desc { m: (format!("s.{me}"), item.0), scr, src: "stream" }).await;
    }
    async fn finished(&mut self, ctx: &mut Context<Self>) {
        let me = cur_task();
        let scr = WORLD.with(|w| w.borrow().scripts.get(&me).cloned().unwrap_or_default().fscr);
        let _ = self.callback(ctx, "f", scr).await;
    }
}
impl<const K: usize> RestartableActor for H<K> {}
impl<const K: usize> Service for H<K> {}

impl<const K: usize> Handler<SMsg> for H<K> {
    async fn handle(&mut self, ctx: &mut Context<Self>, msg: SMsg) {
        self.work(ctx, msg.0).await;
    }
}
impl<const K: usize> Handler<Tick> for H<K> {
    async fn handle(&mut self, ctx: &mut Context<Self>, msg: Tick) {
        let me = cur_task();
        let scr = WORLD.with(|w| w.borrow().scripts.get(&me).cloned().unwrap_or_default().tscr);
        self.work(ctx, Desc { m: (msg.timer.clone(), msg.k), scr, src: "timer" }).await;
    }
}
impl<const K: usize> Handler<()> for H<K> {
    async fn handle(&mut self, ctx: &mut Context<Self>, _msg: ()) {
        let me = cur_task();
        self.unit_seen += 1;
        let n = WORLD.with(|w| {
            let mut w = w.borrow_mut();
            let n = w.units.entry(me.clone()).or_insert(0);
            *n += 1;
            *n
        });
        self.work(ctx, Desc { m: ("unit".into(), n), scr: vec![], src: "parent" }).await;
    }
}
impl<const K: usize> Handler<Bc> for H<K> {
    async fn handle(&mut self, ctx: &mut Context<Self>, msg: Bc) {
        self.work(ctx, Desc { m: (msg.0, msg.1), scr: vec![], src: "parent" }).await;
    }
}
impl<const K: usize> Handler<Bc2> for H<K> {
    async fn handle(&mut self, ctx: &mut Context<Self>, msg: Bc2) {
        self.work(ctx, Desc { m: (msg.0, msg.1), scr: vec![], src: "parent" }).await;
    }
}
impl<const K: usize, const T: usize> Handler<Tp<T>> for H<K> {
    async fn handle(&mut self, ctx: &mut Context<Self>, msg: Tp<T>) {
        self.work(ctx, Desc { m: msg.0, scr: vec![], src: "broker" }).await;
    }
}
impl<const K: usize> Handler<CMsg> for H<K> {
    async fn handle(&mut self, ctx: &mut Context<Self>, msg: CMsg) -> Reply {
        self.work(ctx, msg.0).await
    }
}

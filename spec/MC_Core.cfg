SPECIFICATION MCSpec
CONSTANTS
  Actor = {"a1"}
  Client = {"c1", "c2"}
  Dev = {}
  MaxOps = 3
  OpSet = {"send", "call", "ping", "stop"}
  Scripts <- ScriptsCore
  Cfgs <- CfgsCore
  InitKinds <- InitKindsAddr
  Faults = {}
  MaxFaults = 0
  Horizon = 0
  Names <- NamesSmall
INVARIANTS C01 C02 C03 C04 C05 C12 Term_WeakInert Term_StopHonoured
CHECK_DEADLOCK FALSE

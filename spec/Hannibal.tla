------------------------------- MODULE Hannibal -------------------------------
(***************************************************************************)
(* Implementation-shaped specification of hoodie/hannibal (actor library). *)
(*                                                                         *)
(* One action per critical section of the code; dependencies' primitives   *)
(* (futures mpsc / oneshot / Shared, Arc/Weak, async-lock) are modelled at *)
(* their API level.  File:line anchors refer to /repo at the pinned commit.*)
(*                                                                         *)
(* Three users of this module (none re-defines an action):                 *)
(*   MC_*.tla   bounded exhaustive checking under free interleaving (Next) *)
(*   Gen.tla    behaviour generation under run-to-block scheduling         *)
(*   Trace.tla  validation of traces recorded from the real crate          *)
(***************************************************************************)
EXTENDS Integers, Sequences, FiniteSets, TLC

CONSTANTS Actor,      \* actor slots (strings)
          Client,     \* client tasks (strings)
          Dev,        \* deviations switched on, subset of {"D1".."D6"} (DESIGN 3.6)
          Profile     \* "debug": from_registry pings a fresh instance while holding the registry lock (debug_assert!,
                      \* service.rs:201); "release": it does not

VARIABLES act,   \* [Actor -> record]   mailbox, event loop, actor value, notifier
          hnd,   \* handle table: handle name -> [kind, a, owner, polled]
          cli,   \* [Client -> record]  client task state (current operation, stage)
          rsp,   \* response oneshots of calls / pings in flight: msg id -> record
          tmr,   \* timer tasks: timer name -> record
          reg,   \* service registry + its lock
          now,   \* virtual clock
          cur,   \* task that owns the CPU (run-to-block discipline), or "none"
          yl,    \* the running task has executed a yield point in this poll
          hst    \* history (what the properties talk about)

vars == <<act, hnd, cli, rsp, tmr, reg, now, cur, yl, hst>>
sys  == <<act, hnd, cli, rsp, tmr, reg, now, hst>>

-----------------------------------------------------------------------------
(* Values *)

Unb  == -1                      \* capacity of an unbounded mailbox
NoM  == <<"none", 0>>           \* "no message id"
DEAD == <<"dead", 0>>           \* park entry of a sender clone that no longer exists
None == "none"

Eff(e, n, s) == [e |-> e, n |-> n, s |-> s]     \* one step of a callback / handler script

NoPayload == [k |-> "none", m |-> NoM, rs |-> "none", scr |-> <<>>, src |-> "none"]
\* k   : "task" | "stop" | "restart"
\* rs  : "none" | "call" | "ping"     has a response oneshot
\* scr : what the harness handler does with it (sequence of Eff)
\* src : "mailbox" | "timer" | "stream" | "broker" | "parent"

NoHold == [tx |-> FALSE, fo |-> FALSE, raw |-> FALSE]

Tasker == Client \cup Actor     \* who can have an operation in flight: clients, and actors inside a handler
StrongKinds == {"addr", "owning", "sender", "caller"}
WeakKinds   == {"waddr", "wsender", "wcaller"}
\* D2: a Caller keeps only the waiting closure alive (caller.rs:32-46)
ForceKinds  == IF "D2" \in Dev THEN {"addr", "owning", "sender"} ELSE StrongKinds

UnbornActor ==
  [pc |-> "unborn", cap |-> Unb, strat |-> "restart", stream |-> FALSE, tmo |-> -1, failto |-> FALSE,    \* tmo: -1 = no handler timeout
   sscr |-> <<>>, pscr |-> <<>>, fscr |-> <<>>,
   mq |-> <<>>, parked |-> <<>>, rx |-> "open",
   curp |-> NoPayload, scr |-> <<>>, ip |-> 0, cbk |-> "none", tdl |-> -1, sdl |-> -1,
   inc |-> 0, inst |-> 0, st |-> <<>>, notif |-> "armed", shared |-> FALSE,
   result |-> "none", jh |-> "none", why |-> "none", svc |-> "none",
   kids |-> <<>>, bn |-> 0, uc |-> 0, ty |-> "0",
   sq |-> [ready |-> 0, next |-> 1, ended |-> FALSE], iscr |-> <<>>, tscr |-> <<>>, pbseen |-> FALSE,
   subs |-> {}, fan |-> {}, bhold |-> {}, bph |-> "none", btgt |-> "none", bseq |-> 0, rtaken |-> 0]

NoArg == [ty |-> "0", nh |-> "none", nh2 |-> "none"]
IdleClient == [stage |-> "idle", n |-> 0, op |-> "none", h |-> "none", m |-> NoM, ta |-> "none", arg |-> NoArg, nest |-> "none",
               hold |-> NoHold, dl |-> -1, last |-> [res |-> "none", pos |-> 0, inst |-> 0, a |-> "none"]]

-----------------------------------------------------------------------------
(* Derived: who keeps the mailbox channel open (channel.rs:73-133)          *)

\* the registry entry is an Addr (service.rs:20-21)
InRegistry(a) == \E T \in DOMAIN reg.ent : reg.ent[T] = a
LiveH(a, kinds) == (\E x \in DOMAIN hnd : hnd[x].a = a /\ hnd[x].kind \in kinds) \/ ("addr" \in kinds /\ InRegistry(a))

\* the Arc of the waiting closure has a strong holder
TxHeld(a) == \/ LiveH(a, StrongKinds)
             \/ \E c \in Tasker : cli[c].ta = a /\ cli[c].hold.tx
             \/ \E b \in Actor : a \in act[b].bhold
             \/ \E i \in DOMAIN tmr : tmr[i].a = a /\ tmr[i].hold.tx
\* the Arc of the forcing closure has a strong holder
FoHeld(a) == \/ LiveH(a, ForceKinds)
             \/ \E c \in Tasker : cli[c].ta = a /\ cli[c].hold.fo
             \/ \E b \in Actor : a \in act[b].bhold
             \/ \E i \in DOMAIN tmr : tmr[i].a = a /\ tmr[i].hold.fo
\* an in-flight waiting-path submission owns a raw mpsc sender clone
RawHeld(a) == \/ \E c \in Tasker : cli[c].ta = a /\ cli[c].hold.raw
              \/ \E b \in Actor : act[b].bph = "flush" /\ act[b].btgt = a
              \/ \E i \in DOMAIN tmr : tmr[i].a = a /\ tmr[i].hold.raw
ChanOpen(a) == TxHeld(a) \/ FoHeld(a) \/ RawHeld(a)

\* WeakAddr / WeakSender / Context::address need both Arcs, WeakCaller only one
CanUpgrade(a, kind) == IF kind = "wcaller" THEN TxHeld(a) /\ ("D2" \in Dev \/ FoHeld(a))
                       ELSE TxHeld(a) /\ FoHeld(a)

Terminated(a) == act[a].pc \in {"done", "failed"}

-----------------------------------------------------------------------------
(* Mailbox primitive: futures mpsc as used by channel.rs                    *)

Over(ar) == ar.cap # Unb /\ Len(ar.mq) + 1 > ar.cap
\* enqueue payload p; a sender over capacity parks entry pk (its own id, or DEAD
\* for the forcing path whose clone is dropped at once) - channel.rs:88-94, mpsc do_send_b
Enq(ar, p, pk) == [ar EXCEPT !.mq = Append(@, p),
                             !.parked = IF Over(ar) THEN Append(@, pk) ELSE @]
\* receiver pops one message and un-parks ONE entry, live or dead - mpsc next_message
Deq(ar) == [ar EXCEPT !.mq = Tail(@), !.parked = IF @ # <<>> THEN Tail(@) ELSE @]
IsParked(ar, pk) == \E i \in 1..Len(ar.parked) : ar.parked[i] = pk
InQueue(ar, m)   == \E i \in 1..Len(ar.mq) : ar.mq[i].m = m

\* response oneshots whose sender half sits in a payload that is dropped
DropResp(R, ms) == [m \in DOMAIN R |-> IF m \in ms /\ R[m].st = "pending" THEN [R[m] EXCEPT !.st = "dropped"] ELSE R[m]]
QueuedResp(ar)  == {ar.mq[i].m : i \in {j \in 1..Len(ar.mq) : ar.mq[j].rs # "none"}}
CurResp(ar)     == IF ar.curp.rs # "none" THEN {ar.curp.m} ELSE {}

-----------------------------------------------------------------------------
(* History bookkeeping (read only by properties)                            *)

HSubmitBegin(H, a, m) ==
  [H EXCEPT !.pred = (m :> H.done[a]) @@ @,
            !.late = [@ EXCEPT ![a] = IF H.stopAcc[a] THEN @ \cup {m} ELSE @]]
HAccepted(H, a, m)  == [H EXCEPT !.acc = [@ EXCEPT ![a] = @ \cup {m}]]
HSubmitDone(H, a, m) == [H EXCEPT !.done = [@ EXCEPT ![a] = @ \cup {m}]]
HStopBegin(H, a) == IF H.stopReq[a] THEN H
                    ELSE [H EXCEPT !.stopReq = [@ EXCEPT ![a] = TRUE], !.preStop = [@ EXCEPT ![a] = H.done[a]]]
HStopAccepted(H, a) == [H EXCEPT !.stopAcc = [@ EXCEPT ![a] = TRUE]]
HCb(H, a, name, ar) == [H EXCEPT !.cb = [@ EXCEPT ![a] = Append(@, <<name, ar.inc, ar.inst>>)]]

-----------------------------------------------------------------------------
(* Initial state                                                            *)

InitHist == [hb |-> [a \in Actor |-> <<>>], he |-> [a \in Actor |-> <<>>], cb |-> [a \in Actor |-> <<>>],
             done |-> [a \in Actor |-> {}], acc |-> [a \in Actor |-> {}], pred |-> <<>>,
             stopReq |-> [a \in Actor |-> FALSE], preStop |-> [a \in Actor |-> {}],
             stopAcc |-> [a \in Actor |-> FALSE], late |-> [a \in Actor |-> {}],
             oksend |-> [a \in Actor |-> {}], okcall |-> {}, errcall |-> {},
             ann |-> [a \in Actor |-> <<>>], ab |-> [a \in Actor |-> <<>>],
             qry |-> {}, ctxr |-> {}, upr |-> {}, abt |-> {}, fires |-> {}, bcast |-> {}, regops |-> {},
             pubs |-> <<>>, subdone |-> [T \in {"B1", "B2"} |-> {}], elig |-> [T \in {"B1", "B2"} |-> {}], coll |-> {}, upfail |-> [a \in Actor |-> FALSE], ninst |-> 0]

InitReg == [ent |-> <<>>, lock |-> "free", n |-> 0]

Init0 == [act |-> [a \in Actor |-> UnbornActor], hnd |-> <<>>, cli |-> [c \in Tasker |-> IdleClient],
          rsp |-> <<>>, tmr |-> <<>>, reg |-> InitReg, now |-> 0, hst |-> InitHist]
EmptyInit ==
  /\ act = Init0.act /\ hnd = Init0.hnd /\ cli = Init0.cli /\ rsp = Init0.rsp /\ tmr = Init0.tmr
  /\ reg = Init0.reg /\ now = Init0.now /\ hst = Init0.hst
  /\ cur = None /\ yl = FALSE
Reset ==
  /\ act' = Init0.act /\ hnd' = Init0.hnd /\ cli' = Init0.cli /\ rsp' = Init0.rsp /\ tmr' = Init0.tmr
  /\ reg' = Init0.reg /\ now' = Init0.now /\ hst' = Init0.hst
  /\ cur' = None /\ yl' = FALSE

-----------------------------------------------------------------------------
(* Client operations.  An operation record o has the uniform fields         *)
(*   op, h (handle used), nh (handle created), a (actor slot for spawn),    *)
(*   scr (handler script of the message), cfg (spawn configuration), d      *)

Mid(c) == <<c, cli[c].n + 1>>
Last(res, pos, inst, a) == [res |-> res, pos |-> pos, inst |-> inst, a |-> a]
Began(c, o, m, a, stage, hold) ==
  [cli EXCEPT ![c] = [@ EXCEPT !.n = @ + 1, !.stage = stage, !.op = o.op, !.h = o.h, !.m = m, !.ta = a, !.hold = hold,
                             !.nest = IF c \in Actor THEN "run" ELSE @]]       \* an operation begun by an actor is a nested one
Finished(C, c, last) ==
  [C EXCEPT ![c] = [@ EXCEPT !.stage = "idle", !.ta = "none", !.hold = NoHold, !.last = last, !.dl = -1,
                             !.nest = IF @ = "run" THEN "done" ELSE @]]
\* an operation that returns within the same step
Instant(c, o, m, last) == Finished(Began(c, o, m, "none", "idle", NoHold), c, last)

CanIssue(c) == cli[c].stage = "idle"
Owns(c, x)  == x \in DOMAIN hnd /\ hnd[x].owner = c

\* ---- spawn (spawner.rs:64-135, builder.rs:188-272): slot a gets configuration o.cfg,
\*      the first handle is an Addr or an OwningAddr
Spawn(c, o) ==
  LET a == o.a  cf == o.cfg IN
  /\ CanIssue(c) /\ o.op = "spawn" /\ act[a].pc = "unborn" /\ o.nh \notin DOMAIN hnd
  /\ act' = [act EXCEPT ![a] = [UnbornActor EXCEPT !.pc = "starting", !.cap = cf.cap, !.strat = cf.strat,
                                   !.stream = cf.stream, !.tmo = cf.tmo, !.failto = cf.failto,
                                   !.sscr = cf.sscr, !.pscr = cf.pscr, !.fscr = cf.fscr,
                                   !.inst = hst.ninst + 1, !.ty = cf.ty,
                                   !.sq = [ready |-> cf.items0, next |-> 1, ended |-> cf.ended0], !.iscr = cf.iscr, !.tscr = IF "tscr" \in DOMAIN cf THEN cf.tscr ELSE <<>>,
                                   !.jh = IF cf.owning THEN "held" ELSE "none"]]
  /\ hnd' = (o.nh :> [kind |-> IF cf.owning THEN "owning" ELSE "addr", a |-> a, owner |-> c, polled |-> FALSE]) @@ hnd
  /\ cli' = Instant(c, o, Mid(c), Last("ok", 0, 0, a))
  /\ hst' = [hst EXCEPT !.ninst = @ + 1]
  /\ UNCHANGED <<rsp, tmr, reg, now>>

\* ---- non-waiting path: Addr::call / ping / stop / restart (addr.rs:87-140, 210-213)
ForcePayload(o, m) ==
  CASE o.op = "call"    -> [k |-> "task", m |-> m, rs |-> "call", scr |-> o.scr, src |-> "mailbox"]
    [] o.op = "ping"    -> [k |-> "task", m |-> m, rs |-> "ping", scr |-> <<>>, src |-> "mailbox"]
    [] o.op \in {"stop", "halt", "try_stop", "try_halt", "consume", "consume_sync"}
                        -> [k |-> "stop", m |-> m, rs |-> "none", scr |-> <<>>, src |-> "mailbox"]
    [] o.op = "restart" -> [k |-> "restart", m |-> m, rs |-> "none", scr |-> <<>>, src |-> "mailbox"]
    [] o.op = "force_send" -> [k |-> "task", m |-> m, rs |-> "none", scr |-> o.scr, src |-> "mailbox"]   \* WeakSender::try_force_send

IsStopOp(op) == op \in {"stop", "halt", "try_stop", "try_halt", "consume", "consume_sync"}

SubmitForce(c, o) ==
  LET x == o.h  a == hnd[x].a  m == Mid(c)  p == ForcePayload(o, m)
      weak == hnd[x].kind \in {"waddr", "wsender"}
      up   == ~weak \/ CanUpgrade(a, hnd[x].kind)
      open == act[a].rx = "open"
      H0 == IF IsStopOp(o.op) THEN HStopBegin(hst, a)
            ELSE IF p.k = "task" /\ (p.rs = "call" \/ o.op = "force_send") THEN HSubmitBegin(hst, a, m) ELSE hst
  IN
  /\ CanIssue(c) /\ Owns(c, x)
  /\ \/ o.op \in {"call", "ping"} /\ hnd[x].kind \in {"addr", "owning"}
     \/ o.op \in {"stop", "halt", "restart"} /\ hnd[x].kind = "addr"
     \/ o.op \in {"try_stop", "try_halt"} /\ hnd[x].kind = "waddr"
     \/ o.op \in {"consume", "consume_sync"} /\ hnd[x].kind = "owning"
     \/ o.op = "force_send" /\ hnd[x].kind = "wsender"
  /\ IF up /\ open
     THEN /\ act' = [act EXCEPT ![a] = [Enq(@, p, DEAD) EXCEPT !.jh = IF o.op \in {"consume", "consume_sync"} /\ @ = "held" THEN "taken" ELSE @]]
          /\ rsp' = IF p.rs # "none" THEN (m :> [st |-> "pending", pos |-> 0, inst |-> 0, a |-> a]) @@ rsp ELSE rsp
          /\ CASE o.op \in {"call", "ping"} ->
                    /\ cli' = Began(c, o, m, a, "resp", NoHold)
                    /\ hst' = IF p.rs = "call" THEN HAccepted(H0, a, m) ELSE H0
                    /\ hnd' = hnd
               [] o.op = "force_send" ->   \* the bound of the mailbox is ignored; accepted and complete at once
                    /\ cli' = Instant(c, o, m, Last("ok", 0, 0, a))
                    /\ hst' = HSubmitDone(HAccepted(H0, a, m), a, m)
                    /\ hnd' = hnd
               [] o.op \in {"stop", "try_stop", "restart"} ->
                    /\ cli' = Instant(c, o, m, Last("ok", 0, 0, a))
                    /\ hst' = IF o.op = "restart" THEN H0 ELSE HStopAccepted(H0, a)
                    /\ hnd' = hnd
               [] o.op = "halt" ->      \* the Addr is consumed by the call and lives until it returns
                    /\ cli' = Began(c, o, m, a, "await", [tx |-> TRUE, fo |-> TRUE, raw |-> FALSE])
                    /\ hst' = HStopAccepted(H0, a)
                    /\ hnd' = [y \in DOMAIN hnd \ {x} |-> hnd[y]]
               [] o.op = "try_halt" ->  \* the upgraded Addr lives until the call returns
                    /\ cli' = Began(c, o, m, a, "await", [tx |-> TRUE, fo |-> TRUE, raw |-> FALSE])
                    /\ hst' = HStopAccepted(H0, a)
                    /\ hnd' = hnd
               [] o.op \in {"consume", "consume_sync"} ->
                    \* stop accepted, then join(): the Option is taken in the same poll if still there.
                    \* consume (async fn) owns the OwningAddr until it returns; consume_sync drops it at once.
                    /\ cli' = IF act[a].jh = "held"
                              THEN Began(c, o, m, a, "join", IF o.op = "consume" THEN [tx |-> TRUE, fo |-> TRUE, raw |-> FALSE] ELSE NoHold)
                              ELSE Instant(c, o, m, Last(IF o.op = "consume" THEN "err" ELSE "none", 0, 0, a))
                    /\ hst' = HStopAccepted(H0, a)
                    /\ hnd' = [y \in DOMAIN hnd \ {x} |-> hnd[y]]
     ELSE \* receiver gone (or weak handle dead): immediate error, nothing enqueued
          /\ cli' = Instant(c, o, m, Last("err", 0, 0, a))
          /\ hst' = IF p.rs = "call" THEN [H0 EXCEPT !.errcall = @ \cup {m}] ELSE H0
          /\ hnd' = IF o.op \in {"halt", "consume", "consume_sync"} THEN [y \in DOMAIN hnd \ {x} |-> hnd[y]] ELSE hnd
          /\ UNCHANGED <<act, rsp>>
  /\ UNCHANGED <<tmr, reg, now>>

\* ---- waiting path: Addr::send, Sender::send, Caller::call, WeakSender::try_send,
\*      WeakCaller::try_call (addr.rs:159-170, sender.rs, caller.rs:42-54, channel.rs:77-86)
WaitHold(kind) ==
  CASE kind \in {"addr", "owning", "sender"} -> [tx |-> FALSE, fo |-> FALSE, raw |-> TRUE]
    [] kind = "caller"  -> [tx |-> TRUE, fo |-> FALSE, raw |-> TRUE]       \* the call future owns an Arc clone
    [] kind = "wsender" -> [tx |-> TRUE, fo |-> TRUE, raw |-> TRUE]        \* upgraded Sender lives across the await
    [] kind = "wcaller" -> [tx |-> TRUE, fo |-> "D2" \notin Dev, raw |-> TRUE]

SubmitWait(c, o) ==
  LET x == o.h  a == hnd[x].a  m == Mid(c)  kind == hnd[x].kind
      iscall == o.op = "call"
      p == [k |-> "task", m |-> m, rs |-> IF iscall THEN "call" ELSE "none", scr |-> o.scr, src |-> "mailbox"]
      up == kind \notin WeakKinds \/ CanUpgrade(a, kind)
      open == act[a].rx = "open"
      H0 == HSubmitBegin(hst, a, m)
  IN
  /\ CanIssue(c) /\ Owns(c, x)
  /\ \/ o.op = "send" /\ kind \in {"addr", "owning", "sender", "wsender"}
     \/ o.op = "call" /\ kind \in {"caller", "wcaller"}
  /\ IF up /\ open
     THEN /\ act' = [act EXCEPT ![a] = Enq(@, p, m)]
          /\ rsp' = IF iscall THEN (m :> [st |-> "pending", pos |-> 0, inst |-> 0, a |-> a]) @@ rsp ELSE rsp
          /\ cli' = Began(c, o, m, a, "flush", WaitHold(kind))
          /\ hst' = HAccepted(H0, a, m)
     ELSE /\ cli' = Instant(c, o, m, Last("err", 0, 0, a))
          /\ hst' = IF iscall THEN [H0 EXCEPT !.errcall = @ \cup {m}] ELSE H0
          /\ UNCHANGED <<act, rsp>>
  /\ UNCHANGED <<hnd, tmr, reg, now>>

\* poll_flush: ready once the own park entry was popped, or the receiver is gone (sink_impl / mpsc poll_ready)
FlushReady(c) == LET a == cli[c].ta IN act[a].rx = "closed" \/ ~IsParked(act[a], cli[c].m)
Flushed(c) ==
  LET a == cli[c].ta  m == cli[c].m IN
  /\ cli[c].stage = "flush" /\ FlushReady(c)
  /\ IF cli[c].op = "call"
     THEN /\ cli' = [cli EXCEPT ![c] = [@ EXCEPT !.stage = "resp", !.hold = [@ EXCEPT !.raw = FALSE]]]
          /\ hst' = hst
     ELSE /\ cli' = Finished(cli, c, Last("ok", 0, 0, a))
          /\ hst' = [HSubmitDone(hst, a, m) EXCEPT !.oksend = [@ EXCEPT ![a] = @ \cup {m}]]
  /\ UNCHANGED <<act, hnd, rsp, tmr, reg, now>>

\* response oneshot resolved: value written by the handler, or sender half dropped (addr.rs:123)
RespReady(c) == cli[c].m \in DOMAIN rsp /\ rsp[cli[c].m].st # "pending"
RespReturn(c) ==
  LET m == cli[c].m  r == rsp[m]  a == cli[c].ta IN
  /\ cli[c].stage = "resp" /\ RespReady(c)
  /\ cli' = Finished(cli, c, IF r.st = "val" THEN Last("ok", r.pos, r.inst, a) ELSE Last("err", 0, 0, a))
  /\ rsp' = [y \in DOMAIN rsp \ {m} |-> rsp[y]]
  /\ hst' = IF cli[c].op = "call"
            THEN (IF r.st = "val" THEN [hst EXCEPT !.okcall = @ \cup {m}, !.done = [@ EXCEPT ![a] = @ \cup {m}]]
                  ELSE [hst EXCEPT !.errcall = @ \cup {m}])
            ELSE hst
  /\ UNCHANGED <<act, hnd, tmr, reg, now>>

\* ---- awaiting an address (Future for Addr, addr.rs:216-225); halt / try_halt continue here
AwaitBegin(c, o) ==
  LET x == o.h  a == hnd[x].a IN
  /\ CanIssue(c) /\ Owns(c, x) /\ o.op \in {"await", "await_ref"} /\ hnd[x].kind = "addr"
  \* D6: an address that already returned its output by reference - and every clone made of it afterwards - panics
  \* when awaited (Shared polled again after completion); intended: it resolves again, like any other clone
  /\ ("D6" \notin Dev \/ ~hnd[x].polled)
  /\ IF o.op = "await"      \* by value: the handle is consumed, but lives until the await returns
     THEN /\ cli' = Began(c, o, Mid(c), a, "await", [tx |-> TRUE, fo |-> TRUE, raw |-> FALSE])
          /\ hnd' = [y \in DOMAIN hnd \ {x} |-> hnd[y]]
     ELSE /\ cli' = Began(c, o, Mid(c), a, "await", NoHold)
          /\ hnd' = hnd
  /\ UNCHANGED <<act, rsp, tmr, reg, now, hst>>

AwaitReady(c) == act[cli[c].ta].notif # "armed"
AwaitReturn(c) ==
  LET a == cli[c].ta  x == cli[c].h IN
  /\ cli[c].stage = "await" /\ AwaitReady(c)
  /\ cli' = Finished(cli, c, Last(IF act[a].notif = "fired" THEN "ok" ELSE "err", 0, 0, a))
  /\ act' = [act EXCEPT ![a].shared = TRUE]                   \* some clone drove the Shared to completion
  /\ hnd' = IF cli[c].op = "await_ref" /\ x \in DOMAIN hnd THEN [hnd EXCEPT ![x].polled = TRUE] ELSE hnd
  /\ hst' = [hst EXCEPT !.ann = [@ EXCEPT ![a] = Append(@, <<"await", act[a].pc, act[a].notif, "x">>)]]
  /\ UNCHANGED <<rsp, tmr, reg, now>>

\* ---- stopped() / running() (addr.rs:99-105, weak_addr.rs:25-27)
\* intended: true exactly from termination on.  D1: Shared::peek - true only after some clone was
\* polled to completion, and never on the clone that itself returned the output.
StoppedAnswer(x) ==
  LET a == hnd[x].a IN
  IF "D1" \in Dev THEN act[a].shared /\ ~hnd[x].polled ELSE act[a].notif # "armed"
Query(c, o) ==
  LET x == o.h  a == hnd[x].a  s == StoppedAnswer(x) IN
  /\ CanIssue(c) /\ Owns(c, x)
  /\ \/ o.op = "stopped" /\ hnd[x].kind \in {"addr", "waddr"}
     \/ o.op = "running" /\ hnd[x].kind = "addr"
  /\ cli' = Instant(c, o, Mid(c), Last(IF (o.op = "stopped") = s THEN "true" ELSE "false", 0, 0, a))
  /\ hst' = [hst EXCEPT !.qry = @ \cup {<<s, act[a].notif # "armed">>}]      \* <<answer "stopped", truth>>
  /\ UNCHANGED <<act, hnd, rsp, tmr, reg, now>>

\* ---- handle algebra (addr.rs:172-207, addr/*.rs)
ConvKind(op, kind) ==
  CASE op = "clone"       /\ kind # "owning"  -> kind
    [] op = "downgrade"   /\ kind = "addr"    -> "waddr"
    [] op = "downgrade"   /\ kind = "sender"  -> "wsender"
    [] op = "downgrade"   /\ kind = "caller"  -> "wcaller"
    [] op = "sender"      /\ kind \in {"addr", "owning"} -> "sender"
    [] op = "caller"      /\ kind \in {"addr", "owning"} -> "caller"
    [] op = "weak_sender" /\ kind \in {"addr", "owning"} -> "wsender"
    [] op = "weak_caller" /\ kind \in {"addr", "owning"} -> "wcaller"
    [] op = "to_addr"     /\ kind = "owning"  -> "addr"
    [] OTHER -> "none"
Convert(c, o) ==
  LET x == o.h  k == ConvKind(o.op, hnd[x].kind) IN
  /\ CanIssue(c) /\ Owns(c, x) /\ k # "none" /\ o.nh \notin DOMAIN hnd
  \* a clone of an address that already returned its output is itself "used up" (Shared::clone of inner = None)
  /\ hnd' = (o.nh :> [kind |-> k, a |-> hnd[x].a, owner |-> o.to, polled |-> hnd[x].polled /\ k \in {"addr", "waddr"}]) @@ hnd
  /\ cli' = Instant(c, o, Mid(c), Last("ok", 0, 0, hnd[x].a))
  /\ UNCHANGED <<act, rsp, tmr, reg, now, hst>>

UpKind(kind) == CASE kind = "waddr" -> "addr" [] kind = "wsender" -> "sender" [] kind = "wcaller" -> "caller" [] OTHER -> "none"
Upgrade(c, o) ==
  LET x == o.h  a == hnd[x].a  k == UpKind(hnd[x].kind)  ok == CanUpgrade(a, hnd[x].kind) IN
  /\ CanIssue(c) /\ Owns(c, x) /\ o.op = "upgrade" /\ k # "none" /\ o.nh \notin DOMAIN hnd
  /\ hnd' = IF ok THEN (o.nh :> [kind |-> k, a |-> a, owner |-> o.to, polled |-> hnd[x].polled /\ k = "addr"]) @@ hnd ELSE hnd
  /\ cli' = Instant(c, o, Mid(c), Last(IF ok THEN "ok" ELSE "none", 0, 0, a))
  /\ hst' = [(IF ok THEN hst ELSE [hst EXCEPT !.upfail = [@ EXCEPT ![a] = TRUE]])
               EXCEPT !.upr = @ \cup {<<ok, LiveH(a, StrongKinds)>>}]            \* <<upgraded, a strong handle exists>>
  /\ UNCHANGED <<act, rsp, tmr, reg, now>>

DropH(c, o) ==
  LET x == o.h IN
  /\ CanIssue(c) /\ Owns(c, x) /\ o.op = "drop"
  /\ hnd' = [y \in DOMAIN hnd \ {x} |-> hnd[y]]
  /\ act' = IF hnd[x].kind = "owning" /\ act[hnd[x].a].jh = "held"
            THEN [act EXCEPT ![hnd[x].a].jh = "none"] ELSE act     \* join handle dropped with it (detach on tokio)
  /\ cli' = Instant(c, o, Mid(c), Last("ok", 0, 0, hnd[x].a))
  /\ UNCHANGED <<rsp, tmr, reg, now, hst>>

\* a handle that a handler put into the pool (Context::weak_*) is picked up by a client
Claim(c, o) ==
  LET x == o.h IN
  /\ CanIssue(c) /\ o.op = "claim" /\ x \in DOMAIN hnd /\ hnd[x].owner = "pool"
  /\ hnd' = [hnd EXCEPT ![x].owner = c]
  /\ cli' = Instant(c, o, Mid(c), Last("ok", 0, 0, hnd[x].a))
  /\ UNCHANGED <<act, rsp, tmr, reg, now, hst>>

Give(c, o) ==
  LET x == o.h IN
  /\ CanIssue(c) /\ Owns(c, x) /\ o.op = "give" /\ o.to \in Client \cup Actor
  /\ hnd' = [hnd EXCEPT ![x].owner = o.to]
  /\ cli' = Instant(c, o, Mid(c), Last("ok", 0, 0, hnd[x].a))
  /\ UNCHANGED <<act, rsp, tmr, reg, now, hst>>

\* OwningAddr::detach (addr.rs:296-302): handle kind changes, nothing else
Detach(c, o) ==
  LET x == o.h  a == hnd[x].a IN
  /\ CanIssue(c) /\ Owns(c, x) /\ o.op = "detach" /\ hnd[x].kind = "owning" /\ o.nh \notin DOMAIN hnd
  /\ hnd' = (o.nh :> [kind |-> "addr", a |-> a, owner |-> c, polled |-> FALSE]) @@ [y \in DOMAIN hnd \ {x} |-> hnd[y]]
  /\ act' = [act EXCEPT ![a].jh = IF @ = "held" THEN "none" ELSE @]
  /\ cli' = Instant(c, o, Mid(c), Last("ok", 0, 0, a))
  /\ UNCHANGED <<rsp, tmr, reg, now, hst>>

\* ---- join (tokio_spawner.rs:17-31): the mutex-guarded Option is taken by the first join;
\*      a later join finds None and returns at once
JoinBegin(c, o) ==
  LET x == o.h  a == hnd[x].a IN
  /\ CanIssue(c) /\ Owns(c, x) /\ o.op = "join" /\ hnd[x].kind = "owning"
  /\ IF act[a].jh = "held"
     THEN /\ cli' = Began(c, o, Mid(c), a, "join", NoHold)
          /\ act' = [act EXCEPT ![a].jh = "taken"]
     ELSE /\ cli' = Instant(c, o, Mid(c), Last("none", 0, 0, a))
          /\ act' = act
  \* (d = 5: the join future is made, the OwningAddr is detached into a plain Addr, and only then the future is awaited)
  /\ hnd' = IF o.d = 5 /\ o.nh # "none"
            THEN (o.nh :> [kind |-> "addr", a |-> a, owner |-> c, polled |-> FALSE]) @@ [y \in DOMAIN hnd \ {x} |-> hnd[y]]
            ELSE hnd
  /\ UNCHANGED <<rsp, tmr, reg, now, hst>>

\* consume / consume_sync continue here after their stop request was accepted and the handle taken
JoinReady(c) == act[cli[c].ta].result # "none"
JoinReturn(c) ==
  LET a == cli[c].ta  val == act[a].result = "ok" IN
  /\ cli[c].stage = "join" /\ JoinReady(c)
  /\ cli' = Finished(cli, c, IF val THEN Last("some", Len(act[a].st), act[a].inst, a)
                             ELSE Last(IF cli[c].op = "consume" THEN "err" ELSE "none", 0, 0, a))
  /\ hst' = [hst EXCEPT !.ann = [@ EXCEPT ![a] = Append(@, <<"join", act[a].pc, act[a].result, IF val THEN "some" ELSE "none">>)]]
  /\ UNCHANGED <<act, hnd, rsp, tmr, reg, now>>

\* ---- service registry (actor/service.rs).  Every operation yields once (the lock shim's scheduling
\*      point), acquires the lock, and runs its check-then-act body while holding it.  Only
\*      from_registry keeps the write lock across an await: the debug-build ping of a fresh instance.
RegOps == {"from_registry", "setup", "register", "replace", "unregister", "already_running"}
\* Broker<T> is a service of its own type per topic (broker.rs:51-91); its payloads carry library-defined "scripts"
BType(T) == "B" \o T
IsBrokerType(ty) == ty \in {"B1", "B2"}
ViaBroker == {"publish", "subscribe"}          \* Broker::publish / Context::publish, Context::subscribe: from_registry, then send
BrokerPayload(op, m, who) ==
  [k |-> "task", m |-> m, rs |-> "none", src |-> "mailbox",
   scr |-> IF op \in {"publish", "bpublish"} THEN <<Eff("b_pub", 0, "")>>
           ELSE IF op \in {"subscribe", "bsubscribe"} THEN <<Eff("b_sub", 0, who)>> ELSE <<Eff("b_unsub", 0, who)>>]
\* history: what a publication must / must not reach, fixed when the publish begins (C09)
TopicOf(ty) == ty
HPubBegin(H, T, m) == [H EXCEPT !.pubs = (m :> [T |-> T, must |-> H.subdone[T], never |-> Actor \ H.elig[T]]) @@ @]
HSubBegin(H, T, who) == [H EXCEPT !.elig = [@ EXCEPT ![T] = @ \cup {who}],
                                 !.pubs = [q \in DOMAIN @ |-> IF @[q].T = T THEN [@[q] EXCEPT !.never = @ \ {who}] ELSE @[q]]]
HSubDone(H, T, who) == [H EXCEPT !.subdone = [@ EXCEPT ![T] = @ \cup {who}]]
HUnsubBegin(H, T, who) == [H EXCEPT !.subdone = [@ EXCEPT ![T] = @ \ {who}],
                                   !.pubs = [q \in DOMAIN @ |-> IF @[q].T = T THEN [@[q] EXCEPT !.must = @ \ {who}] ELSE @[q]]]
\* (an unsubscribe that overtakes a subscription still in flight does not cancel it)
SubInFlight(who, T) == who \in Actor /\ cli[who].nest = "run" /\ cli[who].op = "subscribe" /\ cli[who].arg.ty = T
HUnsubDone(H, T, who) == IF SubInFlight(who, T) THEN H ELSE [H EXCEPT !.elig = [@ EXCEPT ![T] = @ \ {who}]]
RegSlot(n) == "r" \o ToString(n)
SvcRunning(a) == IF "D1" \in Dev THEN ~act[a].shared ELSE act[a].notif = "armed"
ServiceCfgS == <<<<Eff("yield", 0, "")>>>>
ServiceCfgP == <<Eff("yield", 0, "")>>

RegIssue(c, o) ==
  LET x == o.h  needs == o.op \in {"register", "replace"} IN
  /\ CanIssue(c) /\ o.op \in RegOps \cup {"publish"}
  /\ (needs => (Owns(c, x) /\ hnd[x].kind = "addr"))
  /\ cli' = [Began(c, o, Mid(c), IF needs THEN hnd[x].a ELSE "none", "reglock",
                    IF needs THEN [tx |-> TRUE, fo |-> TRUE, raw |-> FALSE] ELSE NoHold)       \* the call owns the Addr it consumed
              EXCEPT ![c].arg = [ty |-> IF needs THEN act[hnd[x].a].ty ELSE IF o.op = "publish" THEN BType(o.ty) ELSE o.ty, nh |-> o.nh, nh2 |-> o.nh2]]
  /\ hnd' = IF needs THEN [y \in DOMAIN hnd \ {x} |-> hnd[y]] ELSE hnd
  /\ hst' = IF o.op = "publish" THEN HPubBegin(hst, BType(o.ty), Mid(c)) ELSE hst
  /\ UNCHANGED <<act, rsp, tmr, reg, now>>

NewH(H, name, a, c) == IF name = "none" THEN H ELSE (name :> [kind |-> "addr", a |-> a, owner |-> c, polled |-> FALSE]) @@ H
RegLockFree(c) == reg.lock = "free"
RegBody(c) ==
  LET op == cli[c].op  T == cli[c].arg.ty  nh == cli[c].arg.nh  nh2 == cli[c].arg.nh2
      has == T \in DOMAIN reg.ent
      old == IF has THEN reg.ent[T] ELSE "none"
      m == cli[c].m
      Log(res, a) == [hst EXCEPT !.regops = @ \cup {<<op, T, res, a, old, IF has THEN act[old].notif = "armed" ELSE FALSE>>}]
  IN
  /\ cli[c].stage = "reglock" /\ RegLockFree(c)
  /\ CASE op \in {"from_registry", "setup"} \cup ViaBroker ->
            IF has /\ SvcRunning(old)
            THEN IF op \in ViaBroker
                 THEN \* the broker is there: Addr::send of the Publish / Subscribe message in the same poll (unbounded mailbox)
                      /\ act' = [act EXCEPT ![old] = IF @.rx = "open" THEN Enq(@, BrokerPayload(op, m, c), DEAD) ELSE @]
                      /\ cli' = Finished(cli, c, Last(IF act[old].rx = "open" THEN "ok" ELSE "err", 0, 0, old))
                      /\ hst' = IF op = "subscribe" THEN HSubDone(Log("hit", old), T, c) ELSE Log("hit", old)
                      /\ UNCHANGED <<hnd, rsp, reg>>
                 ELSE /\ hnd' = IF op = "setup" THEN hnd ELSE NewH(hnd, nh, old, c)
                      /\ cli' = Finished(cli, c, Last("ok", 0, 0, old))
                      /\ hst' = Log("hit", old)
                      /\ UNCHANGED <<act, rsp, reg>>
            ELSE \* spawn a fresh Default instance, register it (dropping a dead entry), ping it under the lock
                 LET r == RegSlot(reg.n + 1)
                     \* (instances of the user's actor type are numbered; a Broker is library code and not one of them)
                     fresh == [UnbornActor EXCEPT !.pc = "starting", !.inst = IF IsBrokerType(T) THEN 0 ELSE hst.ninst + 1, !.ty = T,
                                                   !.sscr = IF IsBrokerType(T) THEN <<>> ELSE ServiceCfgS,
                                                   !.pscr = IF IsBrokerType(T) THEN <<>> ELSE ServiceCfgP] IN
                 /\ r \in Actor /\ act[r].pc = "unborn"
                 /\ IF Profile = "debug"
                    THEN /\ act' = [act EXCEPT ![r] = Enq(fresh, [k |-> "task", m |-> m, rs |-> "ping", scr |-> <<>>, src |-> "mailbox"], DEAD)]
                         /\ rsp' = (m :> [st |-> "pending", pos |-> 0, inst |-> 0, a |-> r]) @@ rsp
                         /\ reg' = [reg EXCEPT !.ent = (T :> r) @@ @, !.lock = c, !.n = @ + 1]
                         /\ cli' = [cli EXCEPT ![c] = [@ EXCEPT !.stage = "regping", !.ta = r, !.hold = [tx |-> TRUE, fo |-> TRUE, raw |-> FALSE]]]
                         /\ hnd' = hnd
                         /\ hst' = [Log("spawn", r) EXCEPT !.ninst = IF IsBrokerType(T) THEN @ ELSE @ + 1]
                    ELSE \* release: no ping, the lock is released at once; a ViaBroker operation goes on to its send in the same poll
                         /\ act' = [act EXCEPT ![r] = IF op \in ViaBroker THEN Enq(fresh, BrokerPayload(op, m, c), DEAD) ELSE fresh]
                         /\ rsp' = rsp
                         /\ reg' = [reg EXCEPT !.ent = (T :> r) @@ @, !.n = @ + 1]
                         /\ cli' = Finished(cli, c, Last("ok", 0, 0, r))
                         /\ hnd' = IF op \in {"setup"} \cup ViaBroker THEN hnd ELSE NewH(hnd, nh, r, c)
                         /\ hst' = [(IF op = "subscribe" THEN HSubDone(Log("spawn", r), T, c) ELSE Log("spawn", r)) EXCEPT !.ninst = IF IsBrokerType(T) THEN @ ELSE @ + 1]
       [] op = "register" ->
            LET a0 == cli[c].ta IN
            IF has /\ ~(IF "D1" \in Dev THEN act[old].shared ELSE act[old].notif # "armed")
            THEN \* still running: error, registry unchanged (the consumed Addr is dropped)
                 /\ cli' = Finished(cli, c, Last("err", 0, 0, a0))
                 /\ hst' = Log("err", a0)
                 /\ UNCHANGED <<act, hnd, rsp, reg>>
            ELSE /\ reg' = [reg EXCEPT !.ent = (T :> a0) @@ @]
                 /\ hnd' = NewH(IF has THEN NewH(hnd, nh2, old, c) ELSE hnd, nh, a0, c)
                 /\ cli' = Finished(cli, c, Last(IF has THEN "some" ELSE "ok", 0, 0, a0))
                 /\ hst' = Log("ok", a0)
                 /\ UNCHANGED <<act, rsp>>
       [] op = "replace" ->
            LET a0 == cli[c].ta IN
            /\ reg' = [reg EXCEPT !.ent = (T :> a0) @@ @]
            /\ hnd' = IF has THEN NewH(hnd, nh2, old, c) ELSE hnd
            /\ cli' = Finished(cli, c, Last(IF has THEN "some" ELSE "none", 0, 0, IF has THEN old ELSE a0))
            /\ hst' = Log("ok", a0)
            /\ UNCHANGED <<act, rsp>>
       [] op = "unregister" ->
            /\ reg' = [reg EXCEPT !.ent = [U \in DOMAIN reg.ent \ {T} |-> reg.ent[U]]]
            /\ hnd' = IF has THEN NewH(hnd, nh, old, c) ELSE hnd
            /\ cli' = Finished(cli, c, Last(IF has THEN "some" ELSE "none", 0, 0, old))
            /\ hst' = Log("ok", old)
            /\ UNCHANGED <<act, rsp>>
       [] op = "already_running" ->
            \* intended: None / Some(false) / Some(true) for unregistered / terminated / alive.  D4: maps Addr::stopped
            LET alive == has /\ SvcRunning(old) IN
            /\ cli' = Finished(cli, c, Last(IF ~has THEN "none" ELSE IF (alive = ("D4" \notin Dev)) THEN "true" ELSE "false", 0, 0, old))
            /\ hst' = Log(IF ~has THEN "none" ELSE IF (alive = ("D4" \notin Dev)) THEN "true" ELSE "false", old)
            /\ UNCHANGED <<act, hnd, rsp, reg>>
  /\ UNCHANGED <<tmr, now>>

RegPingReady(c) == cli[c].m \in DOMAIN rsp /\ rsp[cli[c].m].st # "pending"
RegPingReturn(c) ==
  LET r == cli[c].ta  m == cli[c].m IN
  /\ cli[c].stage = "regping" /\ RegPingReady(c)
  /\ rsp[m].st = "val"                        \* (a failed ping trips the crate's debug_assert: not in the alphabet)
  /\ reg' = [reg EXCEPT !.lock = "free"]
  /\ rsp' = [y \in DOMAIN rsp \ {m} |-> rsp[y]]
  /\ IF cli[c].op \in ViaBroker
     THEN /\ act' = [act EXCEPT ![r] = IF @.rx = "open" THEN Enq(@, BrokerPayload(cli[c].op, m, c), DEAD) ELSE @]
          /\ cli' = Finished(cli, c, Last(IF act[r].rx = "open" THEN "ok" ELSE "err", 0, 0, r))
          /\ hst' = IF cli[c].op = "subscribe" THEN HSubDone(hst, cli[c].arg.ty, c) ELSE hst
          /\ hnd' = hnd
     ELSE /\ hnd' = IF cli[c].op = "setup" THEN hnd ELSE NewH(hnd, cli[c].arg.nh, r, c)
          /\ cli' = Finished(cli, c, Last("ok", 0, 0, r))
          /\ UNCHANGED <<act, hst>>
  /\ UNCHANGED <<tmr, now>>

\* Addr<Broker<T>>::publish / subscribe / unsubscribe (broker.rs:142-158): a plain send on the broker's (unbounded) mailbox
BSubmit(c, o) ==
  LET x == o.h  b == hnd[x].a  m == Mid(c)  T == act[b].ty
      who == IF o.op = "bpublish" THEN "none" ELSE hnd[o.h2].a
      open == act[b].rx = "open"
      H0 == CASE o.op = "bpublish" -> HPubBegin(hst, T, m)
              [] o.op = "bsubscribe" -> IF open THEN HSubDone(HSubBegin(hst, T, who), T, who) ELSE hst
              [] o.op = "bunsubscribe" -> IF open THEN HUnsubDone(HUnsubBegin(hst, T, who), T, who) ELSE hst
  IN
  /\ CanIssue(c) /\ Owns(c, x) /\ o.op \in {"bpublish", "bsubscribe", "bunsubscribe"} /\ hnd[x].kind = "addr" /\ IsBrokerType(T)
  /\ (o.op # "bpublish" => (Owns(c, o.h2) /\ hnd[o.h2].kind \in {"addr", "owning"}))
  /\ act' = IF open THEN [act EXCEPT ![b] = Enq(@, BrokerPayload(o.op, m, who), DEAD)] ELSE act
  /\ cli' = Instant(c, o, m, Last(IF open THEN "ok" ELSE "err", 0, 0, b))
  /\ hst' = H0
  /\ UNCHANGED <<hnd, rsp, tmr, reg, now>>

\* Broker::try_publish (broker.rs:62-68): try_from_registry, then publish through the address
TryPublish(c, o) ==
  LET T == BType(o.ty)  has == T \in DOMAIN reg.ent  m == Mid(c)
      ok == reg.lock = "free" /\ has /\ SvcRunning(reg.ent[T])
      b == IF has THEN reg.ent[T] ELSE "none"
  IN
  /\ CanIssue(c) /\ o.op = "try_publish"
  /\ act' = IF ok /\ act[b].rx = "open" THEN [act EXCEPT ![b] = Enq(@, BrokerPayload("publish", m, c), DEAD)] ELSE act
  /\ cli' = Instant(c, o, m, Last(IF ~ok THEN "none" ELSE IF act[b].rx = "open" THEN "ok" ELSE "err", 0, 0, b))
  /\ hst' = IF ok THEN HPubBegin(hst, T, m) ELSE hst
  /\ UNCHANGED <<hnd, rsp, tmr, reg, now>>

\* try_from_registry (service.rs:120-129): try_read, no waiting
TryFromRegistry(c, o) ==
  LET T == o.ty  has == T \in DOMAIN reg.ent
      ok == reg.lock = "free" /\ has /\ SvcRunning(reg.ent[T])
  IN
  /\ CanIssue(c) /\ o.op = "try_from_registry"
  /\ hnd' = IF ok THEN NewH(hnd, o.nh, reg.ent[T], c) ELSE hnd
  /\ cli' = Instant(c, o, Mid(c), Last(IF ok THEN "ok" ELSE "none", 0, 0, IF has THEN reg.ent[T] ELSE "none"))
  /\ hst' = [hst EXCEPT !.regops = @ \cup {<<"try_from_registry", T, IF ok THEN "hit" ELSE "none", IF has THEN reg.ent[T] ELSE "none",
                                             IF has THEN reg.ent[T] ELSE "none", IF has THEN act[reg.ent[T]].notif = "armed" ELSE FALSE>>}]
  /\ UNCHANGED <<act, rsp, tmr, reg, now>>

\* ---- scheduling points and sleeping of the client itself
ClientSleep(c, o) ==
  /\ CanIssue(c) /\ o.op = "sleep"
  /\ cli' = [Began(c, o, Mid(c), "none", "sleep", NoHold) EXCEPT ![c].dl = now + o.d]
  /\ UNCHANGED <<act, hnd, rsp, tmr, reg, now, hst>>
SleepReady(c) == now >= cli[c].dl
ClientWake(c) ==
  /\ cli[c].stage = "sleep" /\ SleepReady(c)
  /\ cli' = Finished(cli, c, Last("ok", 0, 0, "none"))
  /\ UNCHANGED <<act, hnd, rsp, tmr, reg, now, hst>>
ClientYield(c, o) ==
  /\ CanIssue(c) /\ o.op = "yield"
  /\ cli' = Instant(c, o, Mid(c), Last("ok", 0, 0, "none"))
  /\ UNCHANGED <<act, hnd, rsp, tmr, reg, now, hst>>

\* the harness-controlled stream becomes ready with d more items / ends (client operations)
StreamFeed(c, o) ==
  /\ CanIssue(c) /\ o.op \in {"feed", "end_stream"} /\ o.a \in Actor /\ act[o.a].stream
  /\ act' = [act EXCEPT ![o.a].sq = IF o.op = "feed" THEN [@ EXCEPT !.ready = IF act[o.a].sq.ended THEN @ ELSE @ + o.d] ELSE [@ EXCEPT !.ended = TRUE]]
  /\ cli' = Instant(c, o, Mid(c), Last("ok", 0, 0, o.a))
  /\ UNCHANGED <<hnd, rsp, tmr, reg, now, hst>>

\* ---- the client gives up: the operation's future is dropped while it is pending (select!, timeout, ...).
\*      What was submitted stays submitted; what the future owned is released.
Abandon(c) ==
  LET st == cli[c].stage  m == cli[c].m  a == cli[c].ta IN
  /\ st \in {"flush", "resp", "await", "join", "sleep", "reglock", "regping"}
  /\ cli' = Finished(cli, c, Last("cancelled", 0, 0, a))
  \* the response receiver of a call / ping goes with the future (the handler's answer is then discarded)
  /\ rsp' = IF m \in DOMAIN rsp THEN [y \in DOMAIN rsp \ {m} |-> rsp[y]] ELSE rsp
  \* a dropped from_registry that was pinging a fresh instance releases the registry lock
  /\ reg' = IF reg.lock = c THEN [reg EXCEPT !.lock = "free"] ELSE reg
  /\ UNCHANGED <<act, hnd, tmr, now, hst>>

Issue(c, o) ==
  \/ Spawn(c, o) \/ SubmitForce(c, o) \/ SubmitWait(c, o) \/ AwaitBegin(c, o) \/ Query(c, o)
  \/ Convert(c, o) \/ Upgrade(c, o) \/ DropH(c, o) \/ Give(c, o) \/ Detach(c, o) \/ JoinBegin(c, o)
  \/ ClientSleep(c, o) \/ ClientYield(c, o) \/ RegIssue(c, o) \/ TryFromRegistry(c, o) \/ StreamFeed(c, o) \/ BSubmit(c, o) \/ TryPublish(c, o) \/ Claim(c, o)

\* continuation steps of a pending operation
ClientCont(c) == Flushed(c) \/ RespReturn(c) \/ AwaitReturn(c) \/ JoinReturn(c) \/ ClientWake(c) \/ RegBody(c) \/ RegPingReturn(c)
ClientContEnabled(c) ==
  CASE cli[c].stage = "flush" -> FlushReady(c)
    [] cli[c].stage = "resp"  -> RespReady(c)
    [] cli[c].stage = "await" -> AwaitReady(c)
    [] cli[c].stage = "join"  -> JoinReady(c)
    [] cli[c].stage = "sleep" -> SleepReady(c)
    [] cli[c].stage = "reglock" -> RegLockFree(c)
    [] cli[c].stage = "regping" -> RegPingReady(c)
    [] OTHER -> FALSE

-----------------------------------------------------------------------------
(* Actor event loop (environment.rs:96-138)                                 *)

\* the script of the callback that starts now
StartedScr(ar) == IF ar.sscr = <<>> THEN <<>> ELSE ar.sscr[IF ar.inc + 1 <= Len(ar.sscr) THEN ar.inc + 1 ELSE Len(ar.sscr)]

InScript(a)  == act[a].pc \in {"started", "handling", "stopping", "finishing", "rs_stopped", "rs_started"}
ScriptDone(a) == act[a].ip > Len(act[a].scr)
CurEff(a) == act[a].scr[act[a].ip]

\* everything the loop future owns is dropped: Context (abort timers, children), receiver (close,
\* notify all parked, drop queued payloads), un-fired notifier, the handler future if any
DropLoop(ar, pc, res, why) ==
  [ar EXCEPT !.pc = pc, !.rx = "closed", !.mq = <<>>, !.parked = <<>>, !.curp = NoPayload, !.scr = <<>>, !.ip = 0,
             !.tdl = -1, !.sdl = -1, !.result = res, !.why = why,
             !.notif = IF @ = "armed" THEN "dropped" ELSE @, !.kids = <<>>,
             !.subs = {}, !.fan = {}, !.bhold = {}, !.bph = "none", !.btgt = "none"]
\* Context::drop aborts the timer tasks (context.rs:71-77); an aborted task still owns what its future
\* holds (an upgraded Sender during a parked send) until it is polled again and ends
AbortTimersOf(a) == [i \in DOMAIN tmr |-> IF tmr[i].a = a /\ tmr[i].st \notin {"ended"} THEN [tmr[i] EXCEPT !.st = "aborted"] ELSE tmr[i]]

HAbandon(H, a) == IF act[a].pc = "handling" THEN [H EXCEPT !.ab = [@ EXCEPT ![a] = Append(@, act[a].curp.m)]] ELSE H
\* <<actor, message, start of the invocation, time of abandonment>>
HTimedOut(H, a) == [H EXCEPT !.abt = @ \cup {<<a, act[a].curp.m, act[a].tdl - act[a].tmo, now>>}]
\* the children held by the Context are released with it (context.rs:66)
ReleaseKids(a) == [y \in DOMAIN hnd \ {act[a].kids[i].h : i \in 1..Len(act[a].kids)} |-> hnd[y]]
FailH(a, why, H) ==
  /\ act' = [act EXCEPT ![a] = DropLoop(@, "failed", "err", why)]
  /\ rsp' = DropResp(rsp, QueuedResp(act[a]) \cup CurResp(act[a]))
  /\ tmr' = AbortTimersOf(a)
  /\ hst' = H
  /\ hnd' = ReleaseKids(a)
  \* a nested operation of the handler is dropped with it (a held registry lock is released)
  /\ cli' = IF cli[a].nest = "none" THEN cli ELSE [cli EXCEPT ![a] = [IdleClient EXCEPT !.n = cli[a].n]]
  /\ reg' = IF reg.lock = a THEN [reg EXCEPT !.lock = "free"] ELSE reg
  /\ now' = now
Fail(a, why) == FailH(a, why, HAbandon(hst, a))

StartedBegin(a) ==
  /\ act[a].pc = "starting"
  /\ act' = [act EXCEPT ![a] = [@ EXCEPT !.pc = "started", !.scr = StartedScr(act[a]), !.ip = 1]]
  /\ hst' = HCb(hst, a, "sb", act[a])
  /\ UNCHANGED <<hnd, cli, rsp, tmr, reg, now>>

\* one step of the running script.  Effects that touch only the actor itself are here.
EffEnabled(a) ==
  LET e == CurEff(a) IN
  IF act[a].sdl >= 0 THEN now >= act[a].sdl
  ELSE IF cli[a].nest = "run" THEN ClientContEnabled(a)
  ELSE IF act[a].bph = "flush" THEN (act[act[a].btgt].rx = "closed" \/ ~IsParked(act[act[a].btgt], <<a, act[a].bseq>>))
  ELSE TRUE

CtxSubmit(a, k) ==    \* Context::stop / restart (context.rs:82-88, 299-305): upgrade the forcing Weak, enqueue
  LET ok == FoHeld(a) /\ act[a].rx = "open"
      p  == [k |-> k, m |-> <<a, act[a].inc * 100 + act[a].ip>>, rs |-> "none", scr |-> <<>>, src |-> "ctx"]
  IN /\ act' = [act EXCEPT ![a] = IF ok THEN [Enq(@, p, DEAD) EXCEPT !.ip = @ + 1] ELSE [@ EXCEPT !.ip = @ + 1]]
     /\ hst' = [(IF k = "stop" THEN (IF ok THEN HStopAccepted(HStopBegin(hst, a), a) ELSE HStopBegin(hst, a)) ELSE hst)
                  EXCEPT !.ctxr = @ \cup {<<ok, LiveH(a, StrongKinds)>>}]
     /\ UNCHANGED <<hnd, cli, rsp, tmr, reg, now>>
CtxSubmitOk(a) == FoHeld(a) /\ act[a].rx = "open"

TimerKinds == {"interval", "interval_with", "delayed_send", "delayed_exec"}
CtxWeakKind == [ctx_weak_address |-> "waddr", ctx_weak_sender |-> "wsender", ctx_weak_caller |-> "wcaller"]
ChildBucket == [add_child |-> "unit", register_bc |-> "bc", register_bc2 |-> "bc2"]
BroadcastBucket == [broadcast_unit |-> "unit", broadcast_bc |-> "bc", broadcast_bc2 |-> "bc2"]
TimerName(a, e) == e.s \o "." \o ToString(act[a].inc)    \* a restarted `started` registers afresh
ScriptStep(a) ==
  LET e == CurEff(a) IN
  /\ InScript(a) /\ ~ScriptDone(a) /\ cli[a].nest # "run"
  /\ CASE e.e = "yield" ->
            /\ act' = [act EXCEPT ![a].ip = @ + 1]
            /\ UNCHANGED <<hnd, cli, rsp, tmr, reg, now, hst>>
       [] e.e = "sleep" ->
            IF act[a].sdl < 0
            THEN /\ act' = [act EXCEPT ![a].sdl = now + e.n]
                 /\ UNCHANGED <<hnd, cli, rsp, tmr, reg, now, hst>>
            ELSE /\ now >= act[a].sdl
                 /\ act' = [act EXCEPT ![a] = [@ EXCEPT !.sdl = -1, !.ip = @ + 1]]
                 /\ UNCHANGED <<hnd, cli, rsp, tmr, reg, now, hst>>
       [] e.e = "ctx_stop"    -> CtxSubmit(a, "stop")
       [] e.e = "ctx_restart" -> CtxSubmit(a, "restart")
       [] e.e \in TimerKinds ->      \* Context::interval / interval_with / delayed_send / delayed_exec (context.rs:218-297)
            /\ TimerName(a, e) \notin DOMAIN tmr
            /\ tmr' = (TimerName(a, e) :> [a |-> a, kind |-> e.e, period |-> e.n, dl |-> -1, st |-> "new", inc |-> act[a].inc,
                                k |-> 0, t0 |-> -1, hold |-> NoHold]) @@ tmr
            /\ act' = [act EXCEPT ![a].ip = @ + 1]
            /\ UNCHANGED <<hnd, cli, rsp, reg, now, hst>>
       [] e.e \in DOMAIN ChildBucket ->     \* Context::add_child / register_child (context.rs:96-111): the handle moves into the context
            LET x == e.s  ok == x \in DOMAIN hnd /\ hnd[x].owner = a /\ hnd[x].kind = "addr" IN
            /\ act' = [act EXCEPT ![a] = [@ EXCEPT !.ip = @ + 1,
                                                   !.kids = IF ok THEN Append(@, [h |-> x, typ |-> ChildBucket[e.e], a |-> hnd[x].a]) ELSE @]]
            /\ hnd' = IF ok THEN [hnd EXCEPT ![x].kind = "sender"] ELSE hnd
            /\ UNCHANGED <<cli, rsp, tmr, reg, now, hst>>
       [] e.e \in DOMAIN BroadcastBucket ->  \* Context::send_to_children (context.rs:113-131): one forced copy per child of that bucket
            LET typ == BroadcastBucket[e.e]
                targets == {i \in 1..Len(act[a].kids) : act[a].kids[i].typ = typ}
                \* children of the bucket in registration order; a child registered twice gets two copies
                Copies(b) == Cardinality({i \in targets : act[a].kids[i].a = b /\ act[b].rx = "open"})
                mid(b, j) == IF typ = "unit" THEN <<"unit", act[b].uc + j>> ELSE <<a, 1000 + act[a].bn + 1>>
                AddCopies(ar, b) == LET n == Copies(b)
                                        RECURSIVE Add(_, _)
                                        Add(r, j) == IF j > n THEN r
                                                     ELSE Add(Enq(r, [k |-> "task", m |-> mid(b, j), rs |-> "none", scr |-> <<>>, src |-> "parent"], DEAD), j + 1)
                                    IN [Add(ar, 1) EXCEPT !.uc = IF typ = "unit" THEN @ + n ELSE @]
            IN
            /\ act' = [b \in Actor |-> IF b = a THEN [act[a] EXCEPT !.ip = @ + 1, !.bn = @ + 1]
                                       ELSE IF Copies(b) > 0 THEN AddCopies(act[b], b) ELSE act[b]]
            /\ hst' = [hst EXCEPT !.bcast = @ \cup {<<a, act[a].bn + 1, typ, {act[a].kids[i].a : i \in targets}>>}]
            /\ UNCHANGED <<hnd, cli, rsp, tmr, reg, now>>
       [] e.e \in ViaBroker ->       \* Context::subscribe / publish (context.rs:190-214): a nested async operation of the actor itself
            IF cli[a].nest = "none"
            THEN \* start: Broker::<T>::from_registry() - the lock shim's scheduling point comes first
                 /\ cli' = [cli EXCEPT ![a] = [@ EXCEPT !.stage = "reglock", !.op = e.e, !.nest = "run", !.n = @ + 1, !.m = <<a, 2000 + cli[a].n + 1>>,
                                                        !.arg = [ty |-> BType(ToString(e.n)), nh |-> "none", nh2 |-> "none"]]]
                 /\ hst' = IF e.e = "publish" THEN HPubBegin(hst, BType(ToString(e.n)), <<a, 2000 + cli[a].n + 1>>) ELSE HSubBegin(hst, BType(ToString(e.n)), a)
                 /\ UNCHANGED <<act, hnd, rsp, tmr, reg, now>>
            ELSE \* the nested operation has returned
                 /\ cli[a].nest = "done"
                 /\ cli' = [cli EXCEPT ![a].nest = "none"]
                 /\ act' = [act EXCEPT ![a].ip = @ + 1]
                 /\ UNCHANGED <<hnd, rsp, tmr, reg, now, hst>>
       [] e.e \in DOMAIN CtxWeakKind ->   \* Context::weak_address / weak_sender / weak_caller (context.rs:160-200): a weak handle leaves the handler
            LET k == CtxWeakKind[e.e]
                ok == e.s \notin DOMAIN hnd /\ (k # "waddr" \/ CanUpgrade(a, "waddr"))     \* weak_address() is None once no strong handle is left
            IN /\ hnd' = IF ok THEN (e.s :> [kind |-> k, a |-> a, owner |-> "pool", polled |-> FALSE]) @@ hnd ELSE hnd
               /\ act' = [act EXCEPT ![a].ip = @ + 1]
               /\ UNCHANGED <<cli, rsp, tmr, reg, now, hst>>
       [] e.e \in {"call_peer", "send_peer"} ->   \* the handler calls / sends to ANOTHER actor through an Addr it was given (e.s)
            LET x == e.s
                o == [op |-> IF e.e = "call_peer" THEN "call" ELSE "send", h |-> x, nh |-> "none", scr |-> <<>>]
                have == x \in DOMAIN hnd /\ hnd[x].owner = a /\ hnd[x].kind = "addr"
            IN
            IF cli[a].nest = "none"
            THEN IF have
                 THEN (IF e.e = "call_peer" THEN SubmitForce(a, o) ELSE SubmitWait(a, o))      \* a nested operation of the actor (nest = "run")
                 ELSE /\ act' = [act EXCEPT ![a].ip = @ + 1]                                     \* no such handle: nothing happens
                      /\ UNCHANGED <<hnd, cli, rsp, tmr, reg, now, hst>>
            ELSE /\ cli[a].nest = "done"
                 /\ cli' = [cli EXCEPT ![a].nest = "none"]
                 /\ act' = [act EXCEPT ![a].ip = @ + 1]
                 /\ UNCHANGED <<hnd, rsp, tmr, reg, now, hst>>
       [] e.e = "b_sub" ->            \* Handler<Subscribe> for Broker (broker.rs:125-130): one entry per context id
            /\ act' = [act EXCEPT ![a] = [@ EXCEPT !.ip = @ + 1, !.subs = @ \cup {e.s}]]
            /\ UNCHANGED <<hnd, cli, rsp, tmr, reg, now, hst>>
       [] e.e = "b_unsub" ->
            /\ act' = [act EXCEPT ![a] = [@ EXCEPT !.ip = @ + 1, !.subs = @ \ {e.s}]]
            /\ UNCHANGED <<hnd, cli, rsp, tmr, reg, now, hst>>
       [] e.e = "b_pub" ->            \* Handler<Publish> for Broker (broker.rs:99-121)
            LET p == act[a].curp.m IN
            (CASE act[a].bph = "none" ->
                   \* upgrade every subscriber at once; the upgraded Senders live until the handler returns
                   LET live == {x \in act[a].subs : CanUpgrade(x, "wsender")} IN
                   /\ act' = [act EXCEPT ![a] = [@ EXCEPT !.bph = "fan", !.fan = live, !.bhold = live]]
                   /\ hst' = [hst EXCEPT !.coll = @ \cup {<<p, act[a].subs, live, {x \in Actor : act[x].pc \notin {"unborn", "done", "failed"} /\ CanUpgrade(x, "wsender")}>>}]
                   /\ UNCHANGED <<hnd, cli, rsp, tmr, reg, now>>
              [] act[a].bph = "fan" /\ act[a].fan # {} ->
                   \* next subscriber, in the (arbitrary) iteration order of the HashMap: waiting-path send of a clone
                   \E x \in act[a].fan :
                     /\ act' = IF act[x].rx = "open"
                                THEN [act EXCEPT ![x] = Enq(@, [k |-> "task", m |-> p, rs |-> "none", scr |-> <<>>, src |-> "broker"], <<a, act[a].bseq + 1>>),
                                                 ![a] = [@ EXCEPT !.bph = "flush", !.btgt = x, !.bseq = @ + 1]]
                                ELSE [act EXCEPT ![a] = [@ EXCEPT !.fan = @ \ {x}]]          \* send error is ignored
                     /\ hst' = IF act[x].rx = "open" THEN HAccepted(hst, x, p) ELSE hst
                     /\ UNCHANGED <<hnd, cli, rsp, tmr, reg, now>>
              [] act[a].bph = "flush" ->
                   /\ act[act[a].btgt].rx = "closed" \/ ~IsParked(act[act[a].btgt], <<a, act[a].bseq>>)
                   /\ act' = [act EXCEPT ![a] = [@ EXCEPT !.bph = "fan", !.fan = @ \ {act[a].btgt}, !.btgt = "none"]]
                   /\ UNCHANGED <<hnd, cli, rsp, tmr, reg, now, hst>>
              [] act[a].bph = "fan" /\ act[a].fan = {} ->
                   \* prune (the upgraded Senders are still alive here), then the handler returns and drops them
                   /\ act' = [act EXCEPT ![a] = [@ EXCEPT !.subs = {x \in @ : CanUpgrade(x, "wsender")}, !.bhold = {}, !.bph = "none", !.ip = @ + 1]]
                   /\ UNCHANGED <<hnd, cli, rsp, tmr, reg, now, hst>>)
       [] e.e = "panic" -> Fail(a, "panic")
       [] e.e = "err" -> act[a].pc \in {"started", "rs_started"} /\ Fail(a, "startErr")
       [] OTHER -> FALSE

StartedEnd(a) ==
  /\ act[a].pc = "started" /\ ScriptDone(a)
  /\ act' = [act EXCEPT ![a] = [@ EXCEPT !.pc = "idle", !.scr = <<>>, !.ip = 0]]
  /\ hst' = HCb(hst, a, "se", act[a])
  /\ UNCHANGED <<hnd, cli, rsp, tmr, reg, now>>

\* payload_stream.next(): pop one payload and un-park one sender (environment.rs:104)
Dequeue(a) ==
  /\ act[a].pc = "idle" /\ act[a].mq # <<>>
  /\ act' = [act EXCEPT ![a] = [Deq(@) EXCEPT !.pc = "dequeued", !.curp = Head(act[a].mq)]]
  /\ UNCHANGED <<hnd, cli, rsp, tmr, reg, now, hst>>

\* channel closed and empty: all senders gone (environment.rs:104 -> None)
\* leaving the receive loop: plain actors go to stopped(), stream-attached ones first to finished()
Leave(a, why) ==
  /\ act' = [act EXCEPT ![a] = IF act[a].stream
                                THEN [@ EXCEPT !.pc = "finishing", !.curp = NoPayload, !.scr = act[a].fscr, !.ip = 1, !.cbk = why]
                                ELSE [@ EXCEPT !.pc = "stopping", !.curp = NoPayload, !.scr = act[a].pscr, !.ip = 1, !.cbk = why]]
  /\ hst' = HCb(hst, a, IF act[a].stream THEN "fb" ELSE "pb", act[a])
  /\ UNCHANGED <<hnd, cli, rsp, tmr, reg, now>>

MailboxClosed(a) ==
  /\ act[a].pc = "idle" /\ act[a].mq = <<>> /\ ~ChanOpen(a)
  /\ Leave(a, "closed")

StopTaken(a) ==
  /\ act[a].pc = "dequeued" /\ act[a].curp.k = "stop"
  /\ Leave(a, "stop")

\* ---- stream-attached actors (environment.rs:140-186): select! between mailbox and stream
StreamMid(a, k) == <<"s." \o a, k>>
StreamItem(a) ==
  /\ act[a].pc = "idle" /\ act[a].stream /\ act[a].sq.ready > 0
  /\ act' = [act EXCEPT ![a] = [@ EXCEPT !.pc = "dequeued", !.sq = [@ EXCEPT !.ready = @ - 1, !.next = @ + 1],
                                          !.curp = [k |-> "task", m |-> StreamMid(a, act[a].sq.next), rs |-> "none", scr |-> act[a].iscr, src |-> "stream"]]]
  /\ UNCHANGED <<hnd, cli, rsp, tmr, reg, now, hst>>
StreamDone(a) ==
  /\ act[a].pc = "idle" /\ act[a].stream /\ act[a].sq.ready = 0 /\ act[a].sq.ended
  /\ Leave(a, "stream")
FinishedEnd(a) ==
  /\ act[a].pc = "finishing" /\ ScriptDone(a) /\ act[a].sdl < 0
  /\ act' = [act EXCEPT ![a] = [@ EXCEPT !.pc = "stopping", !.scr = act[a].pscr, !.ip = 1]]
  /\ hst' = HCb(HCb(hst, a, "fe", act[a]), a, "pb", act[a])
  /\ UNCHANGED <<hnd, cli, rsp, tmr, reg, now>>



\* ping payload: answered by the loop itself (addr.rs:133-137)
PingHandled(a) ==
  LET m == act[a].curp.m IN
  /\ act[a].pc = "dequeued" /\ act[a].curp.k = "task" /\ act[a].curp.rs = "ping"
  /\ act' = [act EXCEPT ![a] = [@ EXCEPT !.pc = "idle", !.curp = NoPayload]]
  /\ rsp' = IF m \in DOMAIN rsp THEN [rsp EXCEPT ![m].st = "val"] ELSE rsp
  /\ UNCHANGED <<hnd, cli, tmr, reg, now, hst>>

HandleBegin(a) ==
  /\ act[a].pc = "dequeued" /\ act[a].curp.k = "task" /\ act[a].curp.rs # "ping"
  /\ act' = [act EXCEPT ![a] = [@ EXCEPT !.pc = "handling", !.scr = act[a].curp.scr, !.ip = 1,
                                          !.tdl = IF act[a].tmo >= 0 /\ ~act[a].stream THEN now + act[a].tmo ELSE -1]]
  /\ hst' = [hst EXCEPT !.hb = [@ EXCEPT ![a] = Append(@, [m |-> act[a].curp.m, inc |-> act[a].inc, inst |-> act[a].inst, src |-> act[a].curp.src])]]
  /\ UNCHANGED <<hnd, cli, rsp, tmr, reg, now>>

\* handler returned: fold the message into the actor state, answer the call (addr.rs:114-121)
HandleEnd(a) ==
  LET m == act[a].curp.m  pos == Len(act[a].st) + 1 IN
  /\ act[a].pc = "handling" /\ ScriptDone(a) /\ act[a].sdl < 0
  /\ act' = [act EXCEPT ![a] = [@ EXCEPT !.pc = "idle", !.curp = NoPayload, !.scr = <<>>, !.ip = 0, !.tdl = -1,
                                          !.st = Append(@, m)]]
  /\ rsp' = IF act[a].curp.rs = "call" /\ m \in DOMAIN rsp
            THEN [rsp EXCEPT ![m] = [@ EXCEPT !.st = "val", !.pos = pos, !.inst = act[a].inst]] ELSE rsp
  /\ hst' = [hst EXCEPT !.he = [@ EXCEPT ![a] = Append(@, m)]]
  /\ UNCHANGED <<hnd, cli, tmr, reg, now>>

\* the Delay won the race: the handler future is dropped (environment.rs:81-93, 112-123)
TimeoutReady(a) == act[a].pc = "handling" /\ act[a].tdl >= 0 /\ now >= act[a].tdl
TimeoutFire(a) ==
  /\ TimeoutReady(a)
  /\ IF act[a].failto
     THEN FailH(a, "timeout", HTimedOut(HAbandon(hst, a), a))
     ELSE /\ act' = [act EXCEPT ![a] = [@ EXCEPT !.pc = "idle", !.curp = NoPayload, !.scr = <<>>, !.ip = 0, !.tdl = -1, !.sdl = -1]]
          /\ rsp' = DropResp(rsp, CurResp(act[a]))
          /\ hst' = HTimedOut(HAbandon(hst, a), a)
          /\ cli' = IF cli[a].nest = "none" THEN cli ELSE [cli EXCEPT ![a] = [IdleClient EXCEPT !.n = cli[a].n]]
          /\ reg' = IF reg.lock = a THEN [reg EXCEPT !.lock = "free"] ELSE reg
          /\ UNCHANGED <<hnd, tmr, now>>

\* a configured timeout of ZERO: the Delay is due the moment it is created, and select! may poll it before the
\* handler future was polled even once - the payload (a ping, too) is dropped without the handler ever starting
TimeoutBeforeStart(a) ==
  /\ act[a].pc = "dequeued" /\ act[a].curp.k = "task" /\ act[a].tmo = 0 /\ ~act[a].stream
  \* (for the ordering properties the payload counts as taken in its turn and abandoned at once)
  /\ LET H1 == [hst EXCEPT !.abt = @ \cup {<<a, act[a].curp.m, now, now>>},
                           !.hb = [@ EXCEPT ![a] = Append(@, [m |-> act[a].curp.m, inc |-> act[a].inc, inst |-> act[a].inst, src |-> "dropped"])],
                           !.ab = [@ EXCEPT ![a] = Append(@, act[a].curp.m)]] IN
     IF act[a].failto
     THEN FailH(a, "timeout", H1)
     ELSE /\ act' = [act EXCEPT ![a] = [@ EXCEPT !.pc = "idle", !.curp = NoPayload]]
          /\ rsp' = DropResp(rsp, CurResp(act[a]))
          /\ hst' = H1
          /\ UNCHANGED <<hnd, cli, tmr, reg, now>>

\* Restart payload (restart_strategy.rs:10-37)
RestartTaken(a) ==
  /\ act[a].pc = "dequeued" /\ act[a].curp.k = "restart"
  /\ IF act[a].stream THEN Fail(a, "panic")         \* environment.rs:158-162
     ELSE IF act[a].strat = "none"
     THEN /\ act' = [act EXCEPT ![a] = [@ EXCEPT !.pc = "idle", !.curp = NoPayload, !.rtaken = @ + 1]]
          /\ UNCHANGED <<hnd, cli, rsp, tmr, reg, now, hst>>
     ELSE /\ act' = [act EXCEPT ![a] = [@ EXCEPT !.pc = "rs_stopped", !.curp = NoPayload, !.scr = act[a].pscr, !.ip = 1, !.cbk = "restart", !.rtaken = @ + 1]]
          /\ hst' = HCb(hst, a, "pb", act[a])
          /\ UNCHANGED <<hnd, cli, rsp, tmr, reg, now>>

RestartStopped(a) ==     \* stopped() of the old incarnation returned
  /\ act[a].pc = "rs_stopped" /\ ScriptDone(a) /\ act[a].sdl < 0
  /\ act' = [act EXCEPT ![a] = [@ EXCEPT !.pc = "rs_mid", !.scr = <<>>, !.ip = 0]]
  /\ hst' = HCb(hst, a, "pe", act[a])
  /\ UNCHANGED <<hnd, cli, rsp, tmr, reg, now>>

RestartRefresh(a) ==     \* (recreate: a fresh Default value) then started() of the new incarnation begins
  LET fresh == act[a].strat = "recreate"
      ar1 == [act[a] EXCEPT !.inc = @ + 1, !.inst = IF fresh THEN hst.ninst + 1 ELSE @, !.st = IF fresh THEN <<>> ELSE @]
  IN
  /\ act[a].pc = "rs_mid"
  /\ act' = [act EXCEPT ![a] = [ar1 EXCEPT !.pc = "rs_started", !.scr = StartedScr(ar1), !.ip = 1]]
  /\ hst' = [HCb(hst, a, "sb", ar1) EXCEPT !.ninst = IF fresh THEN @ + 1 ELSE @]
  /\ tmr' = IF "D3" \in Dev THEN tmr ELSE AbortTimersOf(a)     \* D3: timers of the old incarnation survive
  /\ UNCHANGED <<hnd, cli, rsp, reg, now>>

RestartStarted(a) ==
  /\ act[a].pc = "rs_started" /\ ScriptDone(a) /\ act[a].sdl < 0
  /\ act' = [act EXCEPT ![a] = [@ EXCEPT !.pc = "idle", !.scr = <<>>, !.ip = 0]]
  /\ hst' = HCb(hst, a, "se", act[a])
  /\ UNCHANGED <<hnd, cli, rsp, tmr, reg, now>>

StoppedEnd(a) ==
  /\ act[a].pc = "stopping" /\ ScriptDone(a) /\ act[a].sdl < 0
  /\ act' = [act EXCEPT ![a] = [@ EXCEPT !.pc = "stopped", !.scr = <<>>, !.ip = 0]]
  /\ hst' = HCb(hst, a, "pe", act[a])
  /\ UNCHANGED <<hnd, cli, rsp, tmr, reg, now>>

Notify(a) ==                               \* environment.rs:133
  /\ act[a].pc = "stopped"
  /\ act' = [act EXCEPT ![a] = [@ EXCEPT !.pc = "notified", !.notif = "fired"]]
  /\ UNCHANGED <<hnd, cli, rsp, tmr, reg, now, hst>>

Exit(a) ==                                 \* end of the async block: Ok(actor), captures dropped
  /\ act[a].pc = "notified"
  /\ act' = [act EXCEPT ![a] = DropLoop(@, "done", "ok", "graceful")]
  /\ rsp' = DropResp(rsp, QueuedResp(act[a]))
  /\ tmr' = AbortTimersOf(a)
  /\ hnd' = ReleaseKids(a)
  /\ UNCHANGED <<cli, reg, now, hst>>

\* fault: the runtime drops the task while it is suspended (runtime shutdown, smol handle drop)
\* (only where the loop future can be suspended: between Dequeue and the handler, or between stopped(),
\* notify() and the return, there is no await)
\* (fault model: the runtime drops the task of an actor the program spawned itself.  Actors the registry spawns on
\* demand - services, brokers - are detached inside the library: nothing but runtime shutdown ends their task, and a
\* debug build asserts that a fresh service answers its first ping, service.rs:169)
Cancel(a) ==
  /\ a \notin {RegSlot(n) : n \in 1..reg.n}
  /\ act[a].pc \notin {"unborn", "done", "failed", "dequeued", "stopped", "notified", "rs_mid"}
  /\ Fail(a, "cancel")

\* continuation of the actor's own nested operation (registry lock, ping of a fresh broker, ...)
NestedCont(a) == InScript(a) /\ cli[a].nest = "run" /\ ClientCont(a)
LoopStep(a) ==
  \/ NestedCont(a)
  \/ StartedBegin(a) \/ ScriptStep(a) \/ StartedEnd(a) \/ Dequeue(a) \/ MailboxClosed(a) \/ StopTaken(a)
  \/ PingHandled(a) \/ HandleBegin(a) \/ HandleEnd(a) \/ TimeoutFire(a) \/ RestartTaken(a)
  \/ RestartStopped(a) \/ RestartRefresh(a) \/ RestartStarted(a) \/ StoppedEnd(a) \/ Notify(a) \/ Exit(a)
  \/ StreamItem(a) \/ StreamDone(a) \/ FinishedEnd(a) \/ TimeoutBeforeStart(a)

LoopCanStep(a) ==
  CASE act[a].pc = "starting" -> TRUE
    [] InScript(a) -> (IF ScriptDone(a) THEN act[a].sdl < 0 ELSE EffEnabled(a)) \/ TimeoutReady(a)
    [] act[a].pc = "idle" -> act[a].mq # <<>> \/ ~ChanOpen(a) \/ (act[a].stream /\ (act[a].sq.ready > 0 \/ act[a].sq.ended))
    [] act[a].pc \in {"dequeued", "stopped", "notified", "rs_mid"} -> TRUE
    [] OTHER -> FALSE

-----------------------------------------------------------------------------
(* Timer tasks (context.rs:218-297): abortable tasks that sleep first, then submit through a  *)
(* WeakSender.  interval uses the forcing path, interval_with / delayed_send the waiting path. *)

\* (the tick is handled by the actor's handler for that message: script `tscr` of its configuration)
TickPayload(i, k) == [k |-> "task", m |-> <<i, k>>, rs |-> "none", scr |-> act[tmr[i].a].tscr, src |-> "timer"]

\* first poll: the sleep is created now
TimerStart(i) ==
  /\ tmr[i].st = "new"
  /\ tmr' = [tmr EXCEPT ![i] = [@ EXCEPT !.st = "sleeping", !.dl = now + tmr[i].period, !.t0 = now]]
  /\ UNCHANGED <<act, hnd, cli, rsp, reg, now, hst>>

TimerDue(i) == tmr[i].st = "sleeping" /\ now >= tmr[i].dl
TimerFire(i) ==
  LET a == tmr[i].a  k == tmr[i].k + 1  kind == tmr[i].kind
      ok == CanUpgrade(a, "wsender") /\ act[a].rx = "open"
      H1 == [hst EXCEPT !.fires = @ \cup {<<i, k, now, ok \/ kind = "delayed_exec">>}]
  IN
  /\ TimerDue(i)
  /\ CASE kind = "interval" ->
            IF ok THEN /\ act' = [act EXCEPT ![a] = Enq(@, TickPayload(i, k), DEAD)]
                       /\ tmr' = [tmr EXCEPT ![i] = [@ EXCEPT !.k = k, !.dl = now + tmr[i].period]]
                       /\ hst' = HAccepted(H1, a, <<i, k>>)
                  ELSE /\ tmr' = [tmr EXCEPT ![i] = [@ EXCEPT !.k = k, !.st = "ended", !.dl = -1]]
                       /\ hst' = H1 /\ act' = act
       [] kind \in {"interval_with", "delayed_send"} ->
            IF ok THEN /\ act' = [act EXCEPT ![a] = Enq(@, TickPayload(i, k), <<i, k>>)]
                       /\ tmr' = [tmr EXCEPT ![i] = [@ EXCEPT !.k = k, !.st = "flush", !.dl = -1, !.hold = [tx |-> TRUE, fo |-> TRUE, raw |-> TRUE]]]
                       /\ hst' = HAccepted(H1, a, <<i, k>>)
                  ELSE /\ tmr' = [tmr EXCEPT ![i] = [@ EXCEPT !.k = k, !.st = "ended", !.dl = -1]]
                       /\ hst' = H1 /\ act' = act
       [] kind = "delayed_exec" ->   \* the caller's future starts running; it may suspend (st "body") before it is done
            /\ tmr' = [tmr EXCEPT ![i] = [@ EXCEPT !.k = k, !.st = "body", !.dl = -1]]
            /\ hst' = H1 /\ act' = act
  /\ UNCHANGED <<hnd, cli, rsp, reg, now>>

TimerFlushReady(i) == tmr[i].st = "flush" /\ (act[tmr[i].a].rx = "closed" \/ ~IsParked(act[tmr[i].a], <<i, tmr[i].k>>))
TimerFlushed(i) ==
  /\ TimerFlushReady(i)
  /\ tmr' = [tmr EXCEPT ![i] = IF @.kind = "interval_with"
                                THEN [@ EXCEPT !.st = "sleeping", !.dl = now + tmr[i].period, !.hold = NoHold]
                                ELSE [@ EXCEPT !.st = "ended", !.hold = NoHold]]
  /\ UNCHANGED <<act, hnd, cli, rsp, reg, now, hst>>

\* the aborted task is polled once more: Abortable returns Aborted, the future is dropped
TimerEnd(i) ==
  /\ tmr[i].st = "aborted"
  /\ tmr' = [tmr EXCEPT ![i] = [@ EXCEPT !.st = "ended", !.dl = -1, !.hold = NoHold]]
  /\ UNCHANGED <<act, hnd, cli, rsp, reg, now, hst>>

\* the future given to delayed_exec runs to its end (it is part of the abortable timer task: not after the actor is gone)
TimerBodyEnd(i) ==
  /\ tmr[i].st = "body"
  /\ tmr' = [tmr EXCEPT ![i] = [@ EXCEPT !.st = "ended"]]
  /\ UNCHANGED <<act, hnd, cli, rsp, reg, now, hst>>

TimerStep(i) == TimerStart(i) \/ TimerFire(i) \/ TimerFlushed(i) \/ TimerEnd(i) \/ TimerBodyEnd(i)
TimerCanStep(i) == tmr[i].st \in {"new", "aborted", "body"} \/ TimerDue(i) \/ TimerFlushReady(i)

-----------------------------------------------------------------------------
(* Clock                                                                    *)

Deadlines == {act[a].sdl : a \in {b \in Actor : act[b].sdl >= 0}}
             \cup {act[a].tdl : a \in {b \in Actor : act[b].tdl >= 0}}
             \cup {cli[c].dl : c \in {d \in Tasker : cli[d].stage = "sleep"}}
             \cup {tmr[i].dl : i \in {j \in DOMAIN tmr : tmr[j].st \in {"sleeping", "aborted"} /\ tmr[j].dl >= 0}}
Pending == {d \in Deadlines : d > now}
MinOf(S) == CHOOSE x \in S : \A y \in S : x <= y
Advance == /\ Pending # {}
           /\ now' = MinOf(Pending)
           /\ UNCHANGED <<act, hnd, cli, rsp, tmr, reg, hst>>

-----------------------------------------------------------------------------
(* Free interleaving: what a multi-threaded runtime can do                  *)

\* HasMoreOps(c): the client's program has another operation to issue (mode specific: the
\* trace knows only what happened, the model checker has a budget)
TaskCanStepW(t, more) ==
  IF t \in Actor THEN LoopCanStep(t)
  ELSE IF t \in Client THEN (IF cli[t].stage = "idle" THEN more ELSE ClientContEnabled(t))
  ELSE IF t \in DOMAIN tmr THEN TimerCanStep(t)
  ELSE FALSE

\* ---- run-to-block discipline of a cooperative executor
\* steps after which the running poll returns Pending with a self-wake: an explicit yield of a script,
\* and the lock shim's scheduling point at the start of a nested registry operation
IsYieldStep(a) == InScript(a) /\ ~ScriptDone(a) /\ cli[a].nest # "run"
                  /\ (CurEff(a).e = "yield" \/ (CurEff(a).e \in ViaBroker /\ cli[a].nest = "none"))
Pick(t)  == cur = None /\ cur' = t /\ yl' = FALSE /\ UNCHANGED sys
RunLoop(a) == /\ cur = a /\ ~yl /\ LoopStep(a) /\ cur' = cur
              /\ yl' = (IsYieldStep(a) /\ act'[a].pc = act[a].pc /\ (act'[a].ip = act[a].ip + 1 \/ cli'[a].nest = "run"))
RunIssue(c, o) == cur = c /\ ~yl /\ Issue(c, o) /\ cur' = cur /\ yl' = (o.op = "yield" \/ o.op \in RegOps \cup {"publish"})
RunCont(c) == cur = c /\ ~yl /\ ClientCont(c) /\ UNCHANGED <<cur, yl>>
RunTimer(i) == cur = i /\ ~yl /\ TimerStep(i) /\ UNCHANGED <<cur, yl>>

=============================================================================

-------------------------------- MODULE Trace --------------------------------
(***************************************************************************)
(* Trace validation: a trace recorded from the real crate (ndjson, one     *)
(* event per line) must be a behaviour of Hannibal.tla under the           *)
(* run-to-block discipline.  Every event is bound to one spec action; the  *)
(* running task's event-less steps in between are taken silently.         *)
(* All invariants of Props.tla are evaluated on every state.               *)
(*                                                                         *)
(* Guards are named: when no action explains an event the postcondition    *)
(* prints the guards that failed at the furthest matched position, which   *)
(* bin/check maps to property ids (Blame).                                 *)
(***************************************************************************)
EXTENDS Props, Blame, Json, IOUtils

VARIABLE l,         \* position of the next event to be explained
         sv,        \* per stream-attached actor: stream items taken in a row although its mailbox was not empty
         pend,      \* per client: the operation whose call has begun but whose first effect has not been placed yet
         rel,       \* actors that were registered children of a parent that has terminated (released by it)
         own        \* actors that were spawned with an OwningAddr
tvars == <<vars, l, sv, pend, rel, own>>
NoOp == [op |-> "none"]

Rec == ndJsonDeserialize(IOEnv.TRACE)

\* IF form on purpose: with `c \/ (TLCSet(..) /\ FALSE)` TLC would evaluate both disjuncts
G(id, c) == IF c THEN TRUE ELSE (TLCSet(2, TLCGet(2) \cup {<<l, id, {}>>}) /\ FALSE)
\* ... with properties implicated by the context besides those the guard id stands for
GX(id, extra, c) == IF c THEN TRUE ELSE (TLCSet(2, TLCGet(2) \cup {<<l, id, extra>>}) /\ FALSE)
\* whatever goes wrong about a stream-attached actor also concerns C13 ("messages sent to its address are handled too",
\* "an explicit stop or handle drop terminates it")
\* ... and about an actor whose parent (it was a registered child) has terminated also concerns C16 ("children are then
\* released, so children without other strong handles finish their accepted messages and stop gracefully")
ReleasedChild(a) == a \in rel
\* ... and about an actor that was spawned owning C17 ("otherwise an OwningAddr behaves as a strong handle")
SX(a) == (IF a \in Actor /\ act[a].stream THEN {"C13"} ELSE {}) \cup (IF a \in Actor /\ ReleasedChild(a) THEN {"C16"} ELSE {})
         \cup (IF a \in own THEN {"C17"} ELSE {})
\* ... and about an actor that has survived an abandoned (timed-out) invocation under the carry-on policy also concerns C11
\* ("the actor carries on with its state intact and later messages are handled")
TmoX(a) == IF a \in Actor /\ act[a].tmo >= 0 /\ ~act[a].failto /\ hst.ab[a] # <<>> THEN {"C11"} ELSE {}
IsEvent(e) == l <= Len(Rec) /\ Rec[l].ev = e /\ l' = l + 1
E == Rec[l]

NoCfg == [cap |-> Unb, strat |-> "restart", stream |-> FALSE, tmo |-> -1, failto |-> FALSE, owning |-> FALSE,
          sscr |-> <<>>, pscr |-> <<>>, fscr |-> <<>>, ty |-> "0", items0 |-> 0, ended0 |-> FALSE, iscr |-> <<>>, tscr |-> <<>>]
OpOf(r) == [op |-> r.op, h |-> r.h, nh |-> r.nh, a |-> r.a, scr |-> r.scr, d |-> r.d, to |-> r.to,
            ty |-> r.ty, nh2 |-> r.nh2, h2 |-> r.h2,
            cfg |-> IF "cfg" \in DOMAIN r THEN r.cfg ELSE NoCfg]

CanStep(t) == (t \in Client /\ pend[t] # NoOp) \/ TaskCanStepW(t, FALSE)
\* why an idle loop could go on although the real one does not: names the guard (and so the property)
\* (C07: "a started error during restart terminates the actor as failed": failures of a RE-started incarnation's start)
RstStartErr(a) == IF act[a].why = "startErr" /\ act[a].inc > 0 THEN ".restarted" ELSE ""
\* a sibling under the same parent died of a failure (a broadcast that does not reach `a` then means the failure spread)
SibFailed(a) == \E p \in Actor : \E i, j \in 1..Len(act[p].kids) :
                   act[p].kids[i].a = a /\ act[p].kids[j].a # a /\ act[act[p].kids[j].a].pc = "failed"
IdleReason(prefix, a) ==
  IF act[a].mq # <<>> THEN prefix \o "deq." \o Head(act[a].mq).src \o (IF Head(act[a].mq).src = "parent" /\ SibFailed(a) THEN ".sibfail"
                                                                       ELSE IF Head(act[a].mq).src = "ctx" THEN "." \o Head(act[a].mq).k ELSE "")
  ELSE IF act[a].stream /\ (act[a].sq.ready > 0 \/ act[a].sq.ended) /\ ChanOpen(a) THEN prefix \o "stream"
  ELSE IF act[a].stream THEN prefix \o "closed.stream"
  ELSE IF \E b \in Actor : a \in act[b].subs THEN prefix \o "closed.subscribed"       \* a broker subscription is all that is left
  ELSE IF \E i \in DOMAIN tmr : tmr[i].a = a /\ tmr[i].st \notin {"ended", "aborted"} THEN prefix \o "closed.timers"   \* ... or its own timers
  ELSE prefix \o "closed"
HeldAsChild(a) == \E p \in Actor : ~Terminated(p) /\ \E i \in 1..Len(act[p].kids) : act[p].kids[i].a = a

TInit == EmptyInit /\ l = 1 /\ sv = [a \in Actor |-> <<0, 0, 0>>] /\ pend = [c \in Client |-> NoOp] /\ rel = {} /\ own = {} /\ TLCSet(2, {}) /\ TLCSet(3, 1)

-----------------------------------------------------------------------------
T_Reset == /\ IsEvent("reset")
           /\ G("reset.quiet", cur = None)
           /\ Reset

\* A task the specification does not know: a future the library spawned besides actor loops and timers (the unchanged
\* library has none).  It is scheduled like any other task and is opaque: nothing is claimed about it, what it does to
\* the actors is judged by their own events.
Known(t) == t \in Actor \cup Client \cup DOMAIN tmr
T_Pick == /\ IsEvent("pick")
          /\ G("pick.free", cur = None)
          /\ G("pick.task", Known(E.task) \/ ("opaque" \in DOMAIN E /\ E.opaque))
          /\ Pick(E.task)

SendOnUnbounded(c) ==
  \/ pend[c] # NoOp /\ pend[c].op = "send" /\ pend[c].h \in DOMAIN hnd /\ hnd[pend[c].h].kind \in {"addr", "owning", "sender"}
     /\ act[hnd[pend[c].h].a].cap = Unb /\ act[hnd[pend[c].h].a].rx = "open"
  \/ pend[c] = NoOp /\ cli[c].op = "send" /\ cli[c].stage = "flush" /\ cli[c].ta \in Actor /\ act[cli[c].ta].cap = Unb
T_Block == /\ IsEvent("block")
           /\ LET t == E.task IN
              /\ G("blk.cur", cur = t)
              \* the real task is suspended: the spec's must be too.  Exception: a task queued for the registry
              \* lock - async-lock wakes one waiter per release and lets a waiter that has been starved for
              \* 500us of wall-clock time go first, so a waiter may stay suspended although the lock is free
              \* (quiescence is strict again: there no waiter may be left behind)
              \* (`woken`: the task returned Pending with its own wake-up already pending - a cooperative yield inside the
              \* library; it stays runnable, so nothing is claimed about what it waits for)
              \* (C12: "on an unbounded mailbox send never waits": a send to an unbounded mailbox that does not return within
              \* the poll in which it was called - not even for a cooperative yield)
              /\ IF t \in Client /\ SendOnUnbounded(t) THEN G("blk.send.unbounded", FALSE) ELSE TRUE
              /\ IF ~Known(t) \/ yl \/ ("woken" \in DOMAIN E /\ E.woken) \/ ~CanStep(t) \/ (t \in Tasker /\ cli[t].stage = "reglock") THEN TRUE
                 ELSE IF t \in Client THEN GX("blk." \o cli[t].stage, SX(cli[t].ta), FALSE)
                 ELSE IF t \in DOMAIN tmr THEN GX(IF ~Terminated(tmr[t].a) /\ LiveH(tmr[t].a, StrongKinds) THEN "blk.timer.alive" ELSE "blk.timer", SX(tmr[t].a), FALSE)
                 ELSE IF act[t].pc = "idle" THEN GX(IdleReason("blk.loop.", t), SX(t), FALSE)
                 ELSE IF act[t].pc = "handling" THEN G("blk.loop.handling", FALSE)
                 ELSE G("blk.loop", FALSE)
              /\ cur' = None /\ yl' = FALSE /\ UNCHANGED sys

\* the loop is about to run (or is inside) its final callbacks: leaving now skips / cuts short stopped()
Leaving(t) == \/ act[t].pc \in {"stopping", "finishing"}
              \/ act[t].pc = "dequeued" /\ act[t].curp.k = "stop"
              \/ act[t].pc = "idle" /\ act[t].mq # <<>> /\ Head(act[t].mq).k = "stop"
T_Exit == /\ IsEvent("exit")
          /\ LET t == E.task IN
             /\ IF ~Known(t) THEN G("exit.cur", cur = t)
                ELSE IF t \in Client
                THEN /\ G("exit.cur", cur = t /\ ~yl)
                     \* (a client that dies inside a call on an actor that has FAILED: the failure was not contained, C06)
                     /\ GX("exit.client." \o (IF pend[t] # NoOp THEN pend[t].op ELSE cli[t].op),
                           IF cli[t].ta \in Actor /\ act[cli[t].ta].pc = "failed" THEN {"C06"}
                           ELSE IF pend[t] # NoOp /\ pend[t].h \in DOMAIN hnd /\ act[hnd[pend[t].h].a].pc = "failed" THEN {"C06"} ELSE {},
                           cli[t].stage = "idle" /\ pend[t] = NoOp /\ E.how = "ready")
                ELSE IF t \in DOMAIN tmr
                THEN /\ G("exit.cur", cur = t /\ ~yl)
                     /\ GX(IF act[tmr[t].a].rtaken > 0 /\ tmr[t].inc = act[tmr[t].a].inc THEN "exit.timer.afterrestart"
                          ELSE IF ~Terminated(tmr[t].a) /\ LiveH(tmr[t].a, StrongKinds)
                          THEN (IF act[tmr[t].a].tmo >= 0 /\ ~act[tmr[t].a].failto /\ hst.ab[tmr[t].a] # <<>> THEN "exit.timer.alive.aftertimeout" ELSE "exit.timer.alive")
                          ELSE "exit.timer",
                          SX(tmr[t].a), tmr[t].st = "ended" /\ E.how = "ready")
                ELSE \* (the state of the loop is judged first: it names what was skipped; then whose turn it was)
                     /\ GX(IF t \in Actor /\ IsBrokerType(act[t].ty) /\ act[t].pc \notin {"done", "failed"} THEN "exit.loop.broker"     \* a broker ends only with the process
                          ELSE IF t \in Actor /\ act[t].pc = "idle" /\ act[t].mq = <<>> /\ ~ChanOpen(t) THEN "exit.loop.closed"      \* left without stopped() after the last drop
                          ELSE IF t \in Actor /\ Leaving(t)
                          THEN (IF act[t].stream THEN "exit.loop.callback.stream"
                                ELSE IF act[t].jh # "none" THEN "exit.loop.callback.owning" ELSE "exit.loop.callback")
                          ELSE IF t \in Actor /\ act[t].tmo >= 0 /\ ~act[t].failto /\ hst.ab[t] # <<>> THEN "exit.loop.aftertimeout"   \* an abandoned invocation was to be survived
                          ELSE IF t \in Actor /\ (\/ act[t].pc \in {"restart", "rs_stopped", "rs_mid", "rs_started"}
                                                  \/ act[t].pc = "dequeued" /\ act[t].curp.k = "restart"
                                                  \/ act[t].pc = "idle" /\ act[t].mq # <<>> /\ Head(act[t].mq).k = "restart") THEN "exit.loop.restart"    \* an accepted restart was not carried out
                          ELSE IF t \in Actor /\ LiveH(t, StrongKinds) THEN "exit.loop.held"      \* the task ended although strong handles exist and nobody stopped it
                          ELSE "exit.loop",
                          \* (the task ended before the drain that an accepted stop promises was over: C04)
                          SX(t) \cup (IF t \in Actor /\ hst.stopAcc[t] THEN {"C04"} ELSE {}),
                          t \in Actor /\ act[t].pc \in {"done", "failed"})
                     /\ G("exit.how", (E.how = "panic") <=> (act[t].why = "panic"))
                     /\ G("exit.cur", cur = t /\ ~yl)
             /\ cur' = None /\ yl' = FALSE /\ UNCHANGED sys

T_Yield == /\ IsEvent("yield")
           /\ LET t == E.task IN
              IF t \in Actor /\ E.tag # "script" /\ ~IsYieldStep(t)
              THEN \* a lock's scheduling point inside a handler's nested operation that the specification does not expect
                   \* here (an extra probe): the task stays runnable and is judged by what it does next
                   /\ G("y.cur", cur = t)
                   /\ UNCHANGED vars
              ELSE IF E.tag = "script" \/ t \in Actor     \* (an actor's registry.* yield starts a nested Context::subscribe / publish)
              THEN /\ G("y.cur", cur = t /\ t \in Actor)
                   /\ G("y.script", IsYieldStep(t))
                   /\ RunLoop(t)
              \* (an operation's scheduling point - the shim's yield at a registry lock.  One that the specification does not
              \* expect here, e.g. an extra read-lock probe, is only that: the task stays runnable and is judged by its results)
              ELSE /\ G("y.op", cur = t)
                   /\ UNCHANGED vars

\* an actor with a handler timeout is inside stopped(): a clock mismatch now points at a deadline armed for the callback
SUT == {a \in Actor : act[a].pc \in {"stopping", "finishing"} /\ act[a].tmo >= 0}
\* ... or a stream-attached actor that was configured with a handler timeout (which does not apply to it) is handling
StopCtx == IF \E a \in SUT : act[a].jh # "none" THEN ".stopping.owning" ELSE IF SUT # {} THEN ".stopping"
           ELSE IF \E a \in Actor : act[a].stream /\ act[a].tmo >= 0 /\ act[a].pc = "handling" THEN ".streamtmo"
           \* ... or a sender is waiting for room in a bounded mailbox (a deadline armed around that wait)
           ELSE IF \E c \in Tasker : cli[c].stage = "flush" THEN ".flushing" ELSE ""
T_Advance == /\ IsEvent("advance")
             /\ G("adv.free", cur = None)
             /\ G(IF \E i \in DOMAIN tmr : act[tmr[i].a].pc = "failed" THEN "adv.pending.failed"
                  ELSE "adv.pending" \o StopCtx, Pending # {})
             /\ Advance
             /\ G("adv.vt" \o StopCtx, now' = E.vt)
             /\ UNCHANGED <<cur, yl>>

T_Cancel == /\ IsEvent("cancel")
            /\ G("cancel.free", cur = None)
            /\ Cancel(E.task)
            /\ UNCHANGED <<cur, yl>>

T_OpBegin == /\ IsEvent("op_begin")
             /\ LET c == E.task  o == OpOf(E.o) IN
                /\ G("ob.cur", cur = c /\ ~yl)
                /\ G("ob.n", cli[c].stage = "idle" /\ cli[c].n + 1 = E.n /\ pend[c] = NoOp)
                /\ G("ob.handle", o.h = "none" \/ o.h \in DOMAIN hnd)
                /\ (o.op = "claim" => G("ob.claim", hnd[o.h].owner = "pool"))
                \* The call has begun.  Its first effect (the message enters the mailbox, the lock is requested, ...) is placed
                \* by T_Issue: in this poll of the client or - if the call first yields to the executor - in a later one, but
                \* before the client's next observable step (it suspends for good, or the call returns).
                /\ pend' = [pend EXCEPT ![c] = o] /\ UNCHANGED vars
\* a call that was polled once and dropped before it had done anything at all: it never happened.  Only possible when
\* that one poll ended in a cooperative yield (`woken`: the call asked to be polled again at once); a call that is
\* waiting for something has placed its first effect.
T_OpEndUnissued == /\ IsEvent("op_end") /\ E.res = "cancelled" /\ "woken" \in DOMAIN E /\ E.woken
                   /\ LET c == E.task IN
                      /\ cur = c /\ pend[c] # NoOp /\ cli[c].n + 1 = E.n
                      /\ cli' = [cli EXCEPT ![c].n = @ + 1]
                      /\ pend' = [pend EXCEPT ![c] = NoOp]
                      /\ yl' = FALSE
                      /\ UNCHANGED <<act, hnd, rsp, tmr, reg, now, hst, cur>>
T_Issue == /\ cur \in Client /\ ~yl /\ l' = l /\ pend[cur] # NoOp
           /\ RunIssue(cur, pend[cur])
           /\ pend' = [pend EXCEPT ![cur] = NoOp]

\* (a liveness query about an actor that FAILED implicates failure visibility, C06, besides C14)
ResGuard(op, L) == IF L.a \in Actor /\ act[L.a].pc = "failed"
                   THEN (IF op \in {"stopped", "running", "try_from_registry", "already_running"} THEN "oe.res." \o op \o ".failed"
                         ELSE "oe.res.failed." \o act[L.a].why \o (IF op \in {"await", "await_ref", "halt", "try_halt"} THEN ".await" ELSE "") \o RstStartErr(L.a))
                   ELSE "oe.res." \o op
\* (a call / ping that comes back with an error although a stop had been accepted only later: C04's drain barrier)
StopCtx2(op, L) == IF op \in {"call", "ping"} /\ L.a \in Actor /\ hst.stopAcc[L.a] THEN {"C04"}
                   \* (C12: "a stop request never waits for mailbox space": a stop / restart request refused on a bounded mailbox)
                   ELSE IF op \in {"stop", "halt", "try_stop", "try_halt", "restart", "consume", "consume_sync"} /\ L.a \in Actor /\ act[L.a].cap # Unb THEN {"C12"}
                   ELSE {}
\* (a registry operation that hands out / reports the wrong instance while an instance of that type has FAILED: C06)
TypeFailedX(op, a) == IF op \in {"from_registry", "setup", "register", "replace", "unregister", "try_from_registry", "already_running"}
                         /\ a \in Actor /\ \E b \in Actor : act[b].pc = "failed" /\ act[b].ty = act[a].ty
                      THEN {"C06"} ELSE {}
LastMatchesCtx(op, L, sfx) ==
                      /\ GX(IF sfx # "" THEN "oe.res." \o op \o sfx ELSE ResGuard(op, L), SX(L.a) \cup StopCtx2(op, L), L.res = E.res)
                      /\ G("oe.val." \o op, L.res \notin {"ok", "some"} \/ (L.pos = E.pos /\ L.inst = E.inst))
                      /\ GX("oe.actor." \o op, TypeFailedX(op, L.a), E.a = "*" \/ L.a = E.a)
LastMatches(op, L) == /\ GX(ResGuard(op, L), SX(L.a) \cup StopCtx2(op, L), L.res = E.res)
                      /\ G("oe.val." \o op, L.res \notin {"ok", "some"} \/ (L.pos = E.pos /\ L.inst = E.inst))
                      /\ GX("oe.actor." \o op, TypeFailedX(op, L.a), E.a = "*" \/ L.a = E.a)
T_OpEnd == /\ IsEvent("op_end")
           /\ LET c == E.task IN
              \* (a registry operation that returns without having passed the lock's scheduling point - e.g. one rewritten to
              \* try_read - is still judged by its result: the yield is the harness shim's, not part of the API contract)
              /\ G("oe.cur", cur = c /\ (~yl \/ cli[c].stage = "reglock"))
              /\ G("oe.n", cli[c].n = E.n)
              /\ IF E.res = "cancelled"
                 THEN \* polled once, still pending, dropped: the spec must agree that it could not complete yet
                      \* (a task queued for the registry lock may still be suspended although the lock is free: see T_Block)
                      /\ G("oe.cancel." \o cli[c].op, cli[c].stage # "idle" /\ (~ClientContEnabled(c) \/ cli[c].stage = "reglock"))
                      /\ Abandon(c) /\ UNCHANGED <<cur, yl>>
                 ELSE IF cli[c].stage = "idle"
                 THEN LastMatches(cli[c].op, cli[c].last) /\ UNCHANGED vars
                 ELSE /\ ~(cli[c].stage = "flush" /\ cli[c].op = "call")     \* routing: that step is silent
                      /\ GX("oe.ready." \o cli[c].op, SX(cli[c].ta), ClientContEnabled(c))
                      /\ ClientCont(c) /\ cur' = cur /\ yl' = FALSE
                      /\ G(IF cli[c].stage = "reglock" /\ cli[c].arg.ty \in DOMAIN reg.ent /\ act[reg.ent[cli[c].arg.ty]].pc = "failed" THEN "oe.done.failed" ELSE "oe.done",
                           cli'[c].stage = "idle")
                      \* (a registry operation that finds a FAILED instance registered: a wrong answer means the failure is not seen)
                      /\ LastMatchesCtx(cli[c].op, cli'[c].last,
                                        IF cli[c].stage = "reglock" /\ cli[c].arg.ty \in DOMAIN reg.ent /\ act[reg.ent[cli[c].arg.ty]].pc = "failed"
                                        THEN ".entryfailed" ELSE "")

T_Cb == /\ IsEvent("cb")
        /\ LET a == E.task IN
           /\ G("cb.cur", cur = a /\ ~yl)
           /\ CASE E.name = "sb" ->
                     /\ GX("cb.sb", TmoX(a), act[a].pc \in {"starting", "rs_mid"})
                     /\ RunLoop(a)
                [] E.name = "se" ->
                     /\ G("cb.se", act[a].pc \in {"started", "rs_started"} /\ ScriptDone(a) /\ act[a].sdl < 0)
                     /\ RunLoop(a)
                [] E.name = "pb" ->
                     IF act[a].stream
                     THEN \* stopped() of a stream-attached actor begins right after finished() returned (one spec step)
                          /\ G("cb.pb.stream", act[a].pc = "stopping" /\ act[a].ip = 1 /\ Len(hst.cb[a]) >= 2
                                                /\ hst.cb[a][Len(hst.cb[a])][1] = "pb" /\ hst.cb[a][Len(hst.cb[a]) - 1][1] = "fe"
                                                /\ ~act[a].pbseen)
                          /\ act' = [act EXCEPT ![a].pbseen = TRUE] /\ UNCHANGED <<hnd, cli, rsp, tmr, reg, now, hst, cur, yl>>
                     ELSE /\ (IF act[a].pc # "failed" THEN TRUE ELSE G("cb.pb.failed" \o RstStartErr(a) \o (IF act[a].jh # "none" THEN ".owning" ELSE ""), FALSE))     \* the graceful epilogue on a failure path
                          /\ (IF ~(act[a].pc = "idle" /\ act[a].mq # <<>>) THEN TRUE ELSE GX("cb.pb.undrained." \o Head(act[a].mq).src \o (IF \E b \in Actor : act[b].pc = "failed" THEN ".fail" ELSE ""), TmoX(a), FALSE))   \* stopping with accepted messages still queued
                          /\ GX(IF HeldAsChild(a) THEN "cb.pb.child" ELSE "cb.pb", TmoX(a),
                               (act[a].pc = "dequeued" /\ act[a].curp.k \in {"stop", "restart"}) \/ (act[a].pc = "idle" /\ act[a].mq = <<>> /\ ~ChanOpen(a)))
                          /\ RunLoop(a)
                [] E.name = "fb" ->
                     \* stop taken, mailbox closed, or stream exhausted: any of them, whichever the real select! saw
                     /\ G("cb.fb", act[a].stream /\ (\/ act[a].pc = "dequeued" /\ act[a].curp.k = "stop"
                                                     \/ act[a].pc = "idle" /\ act[a].mq = <<>> /\ ~ChanOpen(a)
                                                     \/ act[a].pc = "idle" /\ act[a].sq.ready = 0 /\ act[a].sq.ended))
                     /\ cur = a /\ cur' = cur /\ yl' = FALSE
                     /\ (StopTaken(a) \/ MailboxClosed(a) \/ StreamDone(a))
                [] E.name = "fe" ->
                     /\ G("cb.fe", act[a].pc = "finishing" /\ ScriptDone(a) /\ act[a].sdl < 0)
                     /\ RunLoop(a)
                [] E.name = "pe" ->
                     /\ G("cb.pe", act[a].pc \in {"stopping", "rs_stopped"} /\ ScriptDone(a) /\ act[a].sdl < 0)
                     /\ RunLoop(a)
                [] OTHER -> G("cb.name", FALSE)
           /\ G(IF act[a].jh # "none" THEN "cb.inst.owning" ELSE "cb.inst", act'[a].inst = E.inst)    \* (the value a join would hand out)
           /\ G("cb.inc", act'[a].inc = E.inc)

T_HBegin == /\ IsEvent("h_begin")
            /\ LET a == E.task IN
               /\ G("hb.cur", cur = a /\ ~yl)
               \* (a handler running on an actor that has FAILED: named after the failure, e.g. a timeout that should have been fatal)
               \* (... or while the specification's loop is about to process a restart / stop request it took out of the mailbox)
               /\ GX(IF act[a].pc = "failed" THEN "hb.phase.failed." \o act[a].why \o RstStartErr(a)
                    ELSE IF act[a].pc = "dequeued" /\ act[a].curp.k \in {"restart", "stop"} THEN "hb.phase." \o act[a].curp.k \o "." \o act[a].curp.src
                    ELSE IF act[a].pc = "idle" /\ act[a].mq # <<>> /\ Head(act[a].mq).k \in {"restart", "stop"} THEN "hb.phase." \o Head(act[a].mq).k \o "." \o Head(act[a].mq).src
                    ELSE "hb.phase." \o E.src \o (IF E.src = "broker" /\ act[a].inc > 0 THEN ".restarted"
                                                     ELSE IF E.src = "timer" /\ act[a].pc = "idle" /\ ~ChanOpen(a) THEN ".closed" ELSE ""),
                    SX(a), act[a].pc = "dequeued" /\ act[a].curp.k = "task" /\ act[a].curp.rs # "ping")
               /\ GX("hb.fifo." \o E.src, SX(a), act[a].curp.m = E.m /\ act[a].curp.src = E.src)
               /\ G("hb.inst", act[a].inst = E.inst /\ act[a].inc = E.inc)
               /\ RunLoop(a)

T_HEnd == /\ IsEvent("h_end")
          /\ LET a == E.task IN
             /\ G("he.cur", cur = a /\ ~yl)
             /\ G("he.phase", act[a].pc = "handling" /\ ScriptDone(a) /\ act[a].sdl < 0)
             /\ G("he.msg", act[a].curp.m = E.m)
             /\ HandleEnd(a) /\ UNCHANGED <<cur, yl>>
             /\ G("he.pos", Len(act'[a].st) = E.pos)

\* the handler future was dropped before it finished: timeout, or the whole loop died
T_HAbandon == /\ IsEvent("h_abandon")
              /\ LET a == E.task IN
                 IF act[a].pc = "handling"
                 THEN \* (a yield of the handler suspends only the handler future: the select! still sees the Delay)
                      /\ G("ha.cur", cur = a)
                      /\ G("ha.msg", act[a].curp.m = E.m)
                      \* (no timeout configured: the invocation died inside the library call its script was making)
                      /\ G(IF act[a].stream THEN "ha.timeout.stream"
                           ELSE IF act[a].tmo < 0 /\ ~ScriptDone(a) THEN "ha.libpanic." \o CurEff(a).e
                           ELSE "ha.timeout", TimeoutReady(a))
                      /\ TimeoutFire(a) /\ cur' = cur /\ yl' = FALSE
                 ELSE /\ G("ha.dead", act[a].pc = "failed" /\ hst.ab[a] # <<>> /\ hst.ab[a][Len(hst.ab[a])] = E.m)
                      /\ UNCHANGED vars

T_Eff == /\ IsEvent("eff")
         /\ LET a == E.task IN
            /\ G("eff.cur", cur = a /\ ~yl)
            /\ G("eff.script", InScript(a) /\ ~ScriptDone(a) /\ act[a].sdl < 0)
            /\ G("eff.kind", CurEff(a).e = E.e /\ CurEff(a).n = E.n)
            /\ (E.e \in {"ctx_stop", "ctx_restart"} => G("eff.ctx", (E.res = "ok") <=> CtxSubmitOk(a)))
            /\ (E.e \in TimerKinds => G("eff.timer", CurEff(a).s = E.s))
            /\ (E.e \in ViaBroker => (G("eff.nested", cli[a].nest = "done") /\ G("eff.nested.res", cli[a].last.res = E.res)))
            /\ (E.e \in DOMAIN CtxWeakKind =>
                   G("eff.ctxweak", (E.res = "ok") <=> (E.s \notin DOMAIN hnd /\ (CtxWeakKind[E.e] # "waddr" \/ CanUpgrade(a, "waddr")))))
            /\ (E.e \in {"call_peer", "send_peer"} =>
                   /\ G("eff.peer", CurEff(a).s = E.s)
                   /\ G("eff.peer.res", IF cli[a].nest = "done" THEN cli[a].last.res = E.res
                                        ELSE (E.res = "none" /\ ~(E.s \in DOMAIN hnd /\ hnd[E.s].owner = a /\ hnd[E.s].kind = "addr"))))
            /\ (E.e \in DOMAIN ChildBucket =>
                   G("eff.child", CurEff(a).s = E.s /\ ((E.res = "ok") <=> (E.s \in DOMAIN hnd /\ hnd[E.s].owner = a /\ hnd[E.s].kind = "addr"))))
            /\ ScriptStep(a) /\ UNCHANGED <<cur, yl>>

T_TimerFire == /\ IsEvent("timer_fire")
               /\ LET i == E.task IN
                  /\ G("tf.cur", cur = i /\ ~yl /\ i \in DOMAIN tmr)
                  /\ G(IF act[tmr[i].a].pc = "failed" THEN "tf.state.failed" ELSE "tf.state", tmr[i].st = "sleeping")   \* not aborted / ended: the actor (incarnation) is alive
                  /\ G("tf.due", now >= tmr[i].dl)                   \* not before its period / delay
                  /\ G("tf.k", tmr[i].k + 1 = E.k)
                  /\ TimerFire(i) /\ UNCHANGED <<cur, yl>>

\* the future given to delayed_exec has run to its end
T_ExecDone == /\ IsEvent("exec_done")
              /\ LET i == E.task IN
                 /\ G("xd.cur", cur = i /\ i \in DOMAIN tmr)
                 /\ G(IF act[tmr[i].a].pc = "failed" THEN "tf.state.failed" ELSE "tf.state", tmr[i].st = "body")   \* not aborted: the actor (incarnation) is alive
                 /\ TimerBodyEnd(i) /\ cur' = cur /\ yl' = FALSE

\* a Default value is constructed: recreate-from-default during a restart, or the registry spawning a service
\* (DefaultSpawnable::spawn_default: the library makes the value inside the client's spawn call)
SpawningDefault(c) == /\ c \in Client
                      /\ \/ (pend[c] # NoOp /\ pend[c].op = "spawn" /\ E.inst = hst.ninst + 1)
                         \/ (pend[c] = NoOp /\ cli[c].stage = "idle" /\ cli[c].op = "spawn" /\ E.inst = hst.ninst)
T_DefaultNew == /\ IsEvent("default_new")
                /\ IF SpawningDefault(E.task)
                   THEN G("dn.cur", cur = E.task) /\ UNCHANGED vars
                   ELSE /\ G("dn.inst", E.inst = hst.ninst + 1)
                        /\ IF E.task \in Actor
                           THEN /\ G("dn.recreate", act[E.task].pc = "rs_mid" /\ act[E.task].strat = "recreate")
                                /\ UNCHANGED vars
                           ELSE LET c == E.task IN
                                /\ GX("dn.cur", IF \E b \in Actor : act[b].pc = "failed" /\ act[b].ty = E.ty THEN {"C06"} ELSE {},
                                      cur = c /\ ~yl /\ cli[c].stage = "reglock" /\ cli[c].op \in {"from_registry", "setup"})
                                /\ G("dn.lock", RegLockFree(c))
                                /\ G("dn.type", cli[c].arg.ty = E.ty)
                                \* the registry spawns only when no live instance is registered
                                /\ G(IF \E b \in Actor : act[b].pc = "failed" /\ act[b].ty = E.ty THEN "dn.miss.typefailed" ELSE "dn.miss",
                                     ~(E.ty \in DOMAIN reg.ent /\ SvcRunning(reg.ent[E.ty])))
                                /\ RunCont(c)

Alive == {a \in Actor : act[a].pc \notin {"unborn", "done", "failed"}} \cup {i \in DOMAIN tmr : tmr[i].st \notin {"ended"}}
SeqSet(s) == {s[i] : i \in 1..Len(s)}
T_Quiescent == /\ IsEvent("quiescent")
               /\ G("q.free", cur = None)
               /\ (E.capped \/
                    /\ LET bad == {a \in Actor : CanStep(a)} IN
                       IF bad = {} THEN TRUE
                       ELSE LET a == CHOOSE x \in bad : TRUE IN
                            GX(IF act[a].pc = "idle" THEN IdleReason("q.loops.", a) ELSE "q.loops", SX(a), FALSE)
                    /\ G("q.clients", \A c \in Client : ~CanStep(c))
                    /\ G("q.timers", \A i \in DOMAIN tmr : ~CanStep(i))
                    /\ G("q.unresolved", SeqSet(E.unresolved) = {c \in Client : cli[c].stage # "idle"})
                    /\ G("q.alive", SeqSet(E.alive) = Alive))
               /\ UNCHANGED vars

\* a schedule dictated by a TLC-generated behaviour (direction A) asked for a task that the real executor
\* did not have runnable / a clock step or cancellation that was not possible: the spec must agree
T_Unavailable == /\ IsEvent("unavailable")
                 /\ G("un.free", cur = None)
                 /\ LET w == E.what IN
                    IF w = "adv" THEN G("un.adv", Pending = {})
                    ELSE IF w \in Actor THEN (IF act[w].pc = "idle" THEN G(IdleReason("un.loop.", w), ~CanStep(w))
                                             ELSE G("un.loop", ~CanStep(w)))
                    ELSE IF w \in Client THEN G("un." \o cli[w].stage, ~CanStep(w))
                    ELSE IF w \in DOMAIN tmr THEN G("un.timer", ~CanStep(w))
                    ELSE TRUE
                 /\ UNCHANGED vars

\* steps of the running task that no harness code can observe
IsSilentLoop(a) ==
  \/ IsBrokerType(act[a].ty)                                                  \* the broker is library code: nothing of it is logged
  \/ InScript(a) /\ cli[a].nest = "run"                                       \* nested registry / broker operation of a handler
  \/ InScript(a) /\ ~ScriptDone(a) /\ cli[a].nest = "none" /\ CurEff(a).e \in {"call_peer", "send_peer"}    \* a handler starts calling a peer
     /\ CurEff(a).s \in DOMAIN hnd /\ hnd[CurEff(a).s].owner = a /\ hnd[CurEff(a).s].kind = "addr"
  \/ act[a].pc = "idle" /\ act[a].mq # <<>>                                   \* Dequeue
  \/ act[a].pc = "idle" /\ act[a].stream /\ act[a].sq.ready > 0                \* StreamItem
  \/ act[a].pc = "dequeued" /\ act[a].curp.k = "task" /\ act[a].curp.rs = "ping"   \* PingHandled
  \/ act[a].pc = "dequeued" /\ act[a].curp.k = "task" /\ act[a].tmo = 0 /\ ~act[a].stream   \* TimeoutBeforeStart (or the handler, with its events)
  \/ act[a].pc = "dequeued" /\ act[a].curp.k = "restart" /\ (act[a].strat = "none" \/ act[a].stream)
  \/ act[a].pc \in {"stopped", "notified"}                                  \* Notify, Exit
  \/ InScript(a) /\ ~ScriptDone(a) /\ CurEff(a).e = "sleep" /\ act[a].sdl >= 0 /\ now >= act[a].sdl
T_Silent == /\ cur # None /\ ~yl /\ l' = l
            /\ \/ cur \in Actor /\ IsSilentLoop(cur) /\ RunLoop(cur)
               \/ cur \in Client /\ cli[cur].stage = "flush" /\ cli[cur].op = "call" /\ RunCont(cur)
               \/ cur \in Client /\ cli[cur].stage = "reglock" /\ IsBrokerType(cli[cur].arg.ty) /\ RunCont(cur)   \* a Broker is spawned without a trace
               \/ cur \in DOMAIN tmr /\ (TimerStart(cur) \/ TimerFlushed(cur) \/ TimerEnd(cur)) /\ UNCHANGED <<cur, yl>>

\* After a yield the task normally suspends (`block`).  A library may also poll the yielding future again within the same
\* poll of the task - a select loop whose other branch was ready - and then the task simply goes on: its next event shows it.
T_Resume == /\ cur # None /\ yl /\ l <= Len(Rec) /\ E.task = cur /\ E.ev # "block"
            /\ l' = l /\ yl' = FALSE /\ UNCHANGED <<sys, cur>>

TNext == \/ T_OpBegin \/ T_Issue \/ T_OpEndUnissued
         \/ (T_Reset /\ pend' = [c \in Client |-> NoOp])
         \/ /\ \/ T_Resume \/ T_Pick \/ T_Block \/ T_Exit \/ T_Yield \/ T_Advance \/ T_Cancel
               \/ T_OpEnd \/ T_Cb \/ T_HBegin \/ T_HEnd \/ T_HAbandon \/ T_Eff \/ T_DefaultNew \/ T_TimerFire \/ T_ExecDone
               \/ T_Quiescent \/ T_Silent \/ T_Unavailable
            /\ UNCHANGED pend
\* Fairness monitor (C13: "an explicit stop or handle drop terminates it even if the stream never ends").  The real
\* loop picks between a ready mailbox and a ready stream at random (futures::select!), the specification leaves the
\* choice open; a run in which one side wins FairBound times in a row although the other one was ready has probability
\* 2^-FairBound under the real tie-break and is rejected: the mailbox (and a stop request in it), or the stream (and its
\* end, after which the actor is to finish), is being starved.
FairBound == 30
\* sv[a] = <<stream items taken in a row while the mailbox had something (or was closed),
\*           mailbox payloads taken in a row while the stream had an item ready (or had ended),
\*           of these: ticks of the actor's own timers taken in a row after the stream had ended>>
SvNext == sv' = [a \in Actor |->
            IF l' > l /\ E.ev = "reset" THEN <<0, 0, 0>>
            ELSE IF act'[a].sq.next > act[a].sq.next THEN <<IF act[a].mq # <<>> \/ ~ChanOpen(a) THEN sv[a][1] + 1 ELSE 0, 0, 0>>
            ELSE IF Len(act'[a].mq) < Len(act[a].mq) /\ act[a].stream /\ act[a].pc = "idle"
                 THEN <<0, IF act[a].sq.ready > 0 \/ act[a].sq.ended THEN sv[a][2] + 1 ELSE 0,
                           IF act[a].sq.ready = 0 /\ act[a].sq.ended /\ Head(act[a].mq).src = "timer" THEN sv[a][3] + 1 ELSE 0>>
            ELSE IF act'[a].pc \in {"done", "failed", "unborn"} THEN <<0, 0, 0>>
            ELSE sv[a]]
C13_FairSelect == \A a \in Actor : sv[a][1] <= FairBound /\ sv[a][2] <= FairBound
\* (C10: "timers never keep the actor alive": a stream-attached actor whose stream has ended goes on handling its own ticks)
C10_TicksAfterStreamEnd == \A a \in Actor : sv[a][3] <= FairBound - 2
RelNext == rel' = IF l' > l /\ E.ev = "reset" THEN {}
                  ELSE rel \cup UNION {{act[p].kids[i].a : i \in 1..Len(act[p].kids)} : p \in {q \in Actor : act[q].kids # <<>> /\ act'[q].kids = <<>>}}
OwnNext == own' = IF l' > l /\ E.ev = "reset" THEN {} ELSE own \cup {a \in Actor : act[a].jh # "held" /\ act'[a].jh = "held"}
TSpec == TInit /\ [][TNext /\ SvNext /\ RelNext /\ OwnNext]_tvars

Track == TLCSet(3, IF l > TLCGet(3) THEN l ELSE TLCGet(3))

\* guard id -> properties whose statement the guard encodes (DESIGN 4.6); ids not listed blame nothing
FailedAt(p) == {g[2] : g \in {x \in TLCGet(2) : x[1] = p}}
BlameOf(g) == IF g \in DOMAIN Blame THEN Blame[g] ELSE {}
Accepted ==
  \/ TLCGet(3) = Len(Rec) + 1
  \/ Print(<<"REJECT", TLCGet(3), ToJson(Rec[TLCGet(3)]), ToJson(FailedAt(TLCGet(3))),
             ToJson(UNION ({BlameOf(g) : g \in FailedAt(TLCGet(3))} \cup {x[3] : x \in {y \in TLCGet(2) : y[1] = TLCGet(3)}}))>>, FALSE)
=============================================================================

-------------------------------- MODULE Props --------------------------------
(***************************************************************************)
(* The listed properties C01..C18 as state invariants over Hannibal.tla's  *)
(* state and history.  The same definitions are evaluated by the bounded   *)
(* model-checking configurations (MC.tla) and on every state of a trace    *)
(* recorded from the real crate (Trace.tla).                               *)
(***************************************************************************)
EXTENDS Hannibal

Range(s) == {s[i] : i \in 1..Len(s)}
HbSet(a) == {hst.hb[a][i].m : i \in 1..Len(hst.hb[a])}
HeSet(a) == Range(hst.he[a])
IdxHb(a, m) == CHOOSE i \in 1..Len(hst.hb[a]) : hst.hb[a][i].m = m
Used == {a \in Actor : act[a].pc # "unborn"}

-----------------------------------------------------------------------------
(* C01 mailbox FIFO: sequential, in order, at most once *)

C01_AtMostOnce ==
  \A a \in Used : \A i, j \in 1..Len(hst.hb[a]) : hst.hb[a][i].m = hst.hb[a][j].m => i = j
\* whenever the submission of m1 had completed before the submission of m2 began, m2 is never
\* handled before m1 nor without m1
C01_RealTimeFIFO ==
  \A a \in Used : \A j \in 1..Len(hst.hb[a]) :
    LET m2 == hst.hb[a][j].m IN
    m2 \in DOMAIN hst.pred =>
      \A m1 \in hst.pred[m2] : \E i \in 1..(j - 1) : hst.hb[a][i].m = m1
\* handler invocations never overlap: ends are a prefix-compatible sub-sequence of begins
C01_NoOverlap ==
  \A a \in Used : Len(hst.he[a]) <= Len(hst.hb[a]) /\ Len(hst.hb[a]) - Len(hst.he[a]) <= 1 + Len(hst.ab[a])
\* the actor state is the fold of exactly the handled messages, in order
C01_Fold ==
  \A a \in Used : \A i \in 1..Len(act[a].st) : act[a].st[i] \in HeSet(a)
C01 == C01_AtMostOnce /\ C01_RealTimeFIFO /\ C01_NoOverlap /\ C01_Fold

-----------------------------------------------------------------------------
(* C02 calls return their own handler's result; everything resolves *)

C02_OwnResult ==
  /\ \A m \in DOMAIN rsp : rsp[m].st = "val" /\ rsp[m].pos > 0 => m \in HeSet(rsp[m].a)
  /\ hst.okcall \cap hst.errcall = {}
  /\ \A a \in Used : \A m \in hst.okcall : (m \in hst.acc[a]) => m \in HeSet(a)
\* once the target has terminated, every pending operation on it can complete
C02_Resolves ==
  \A c \in Client :
    (cli[c].stage \in {"flush", "resp", "await", "join"} /\ Terminated(cli[c].ta)) => ClientContEnabled(c)
C02 == C02_OwnResult /\ C02_Resolves

-----------------------------------------------------------------------------
(* C03 lifecycle protocol: started (handle)* [finished] stopped per incarnation *)

CbNext(x) == CASE x = "sb" -> {"se"} [] x = "se" -> {"pb", "fb"} [] x = "fb" -> {"fe"} [] x = "fe" -> {"pb"}
               [] x = "pb" -> {"pe"} [] x = "pe" -> {"sb"} [] OTHER -> {}
C03_Order ==
  \A a \in Used :
    LET s == hst.cb[a] IN
    /\ (s # <<>> => s[1][1] = "sb")
    /\ \A i \in 1..(Len(s) - 1) : s[i + 1][1] \in CbNext(s[i][1])
    /\ \A i \in 1..(Len(s) - 1) : (s[i][1] = "fe" \/ (s[i][1] = "se" /\ s[i + 1][1] = "fb")) => act[a].stream
    /\ \A i \in 1..(Len(s) - 1) : (s[i][1] = "se" /\ s[i + 1][1] = "pb") => ~act[a].stream
C03_HandlersInside ==    \* a handler runs only in a started, not yet stopping incarnation
  \A a \in Used : act[a].pc \in {"dequeued", "handling"} =>
     (hst.cb[a] # <<>> /\ hst.cb[a][Len(hst.cb[a])][1] = "se" /\ hst.cb[a][Len(hst.cb[a])][2] = act[a].inc)
C03_Graceful ==          \* graceful end: stopped completed exactly once after the last handler, nothing afterwards
  \A a \in Used : act[a].pc \in {"stopped", "notified", "done"} =>
     (hst.cb[a][Len(hst.cb[a])][1] = "pe" /\ Len(hst.hb[a]) = Len(hst.he[a]) + Len(hst.ab[a]))
C03_StartErr ==          \* started failed in the first incarnation: nothing is ever handled
  \A a \in Used : (act[a].why = "startErr" /\ act[a].inc = 0) => hst.hb[a] = <<>>
C03 == C03_Order /\ C03_HandlersInside /\ C03_Graceful /\ C03_StartErr

-----------------------------------------------------------------------------
(* C04 stop is a drain barrier; termination announced after stopped() *)

C04_Drain ==             \* absent failures, everything whose submission completed before the first stop request is handled
  \A a \in Used : (act[a].pc = "done" /\ hst.stopReq[a] /\ act[a].cbk # "stream") => hst.preStop[a] \subseteq HbSet(a)
C04_NoLate ==            \* nothing submitted after an accepted stop request returned is ever handled
  \A a \in Used : hst.late[a] \cap HbSet(a) = {} /\ hst.late[a] \cap hst.okcall = {}
C04_StopTerminates ==    \* an accepted stop, absent failure: the loop never goes back to waiting for more once Stop was taken
  \A a \in Used : act[a].cbk = "stop" => act[a].pc \in {"finishing", "stopping", "stopped", "notified", "done", "failed"}
C04_AnnounceAfter ==
  \A a \in Used : \A i \in 1..Len(hst.ann[a]) :
    LET e == hst.ann[a][i] IN
    /\ e[2] \in {"notified", "done", "failed"}
    /\ (e[1] = "await" => ((e[3] = "fired") <=> (e[2] # "failed")))
    /\ (e[1] = "join"  => e[2] \in {"done", "failed"} /\ ((e[3] = "ok") <=> (e[2] = "done")))
C04 == C04_Drain /\ C04_NoLate /\ C04_StopTerminates /\ C04_AnnounceAfter

-----------------------------------------------------------------------------
(* C05 strong handles keep alive, weak never; last drop drains, then stops *)

C05_KeepAlive ==         \* the loop ended through "mailbox closed" only if no strong holder was left
  \A a \in Used : act[a].cbk = "closed" => ~ChanOpen(a)
C05_DrainOnDrop ==
  \A a \in Used : (act[a].cbk = "closed" /\ act[a].pc \in {"finishing", "stopping", "stopped", "notified", "done"}) => hst.acc[a] \subseteq HbSet(a)
C05_UpgradeDead ==       \* once no strong handle is left, no strong handle ever exists again
  \A a \in Used : hst.upfail[a] => (~LiveH(a, {"addr", "owning", "sender"}) \/ "D2" \in Dev)
C05 == C05_KeepAlive /\ C05_DrainOnDrop /\ C05_UpgradeDead

-----------------------------------------------------------------------------
(* C06 failure of one actor is contained and visible as errors, never as hangs *)
C06_Visible ==           \* a failed actor: awaiting yields an error, join yields None, mailbox gone
  \A a \in Used : act[a].pc = "failed" =>
     /\ act[a].notif = "dropped" /\ act[a].result = "err" /\ act[a].rx = "closed" /\ act[a].mq = <<>>
     /\ \A i \in DOMAIN tmr : tmr[i].a = a => tmr[i].st \in {"aborted", "ended"}
C06_NoGhostAnswers ==    \* no call answered Ok for a message whose handler did not finish
  \A a \in Used : \A m \in hst.okcall : m \in hst.acc[a] => m \in HeSet(a)
C06_OnlyOwnFault ==      \* an actor fails only through its own fault (own script, own timeout, own task cancelled)
  \A a \in Used : act[a].pc = "failed" => act[a].why \in {"startErr", "panic", "timeout", "cancel"}
C06 == C06_Visible /\ C06_NoGhostAnswers /\ C06_OnlyOwnFault /\ C02_Resolves

-----------------------------------------------------------------------------
(* C07 restart keeps identity and mailbox, fresh incarnation *)
C07_IncMonotone ==       \* messages before / after the request are handled by the incarnation before / after it
  \A a \in Used : \A i, j \in 1..Len(hst.hb[a]) : i < j => hst.hb[a][i].inc <= hst.hb[a][j].inc
Sb(a) == {i \in 1..Len(hst.cb[a]) : hst.cb[a][i][1] = "sb"}
C07_Identity ==          \* default strategy: same value; recreate: a fresh Default value; started after stopped
  \A a \in Used : \A i \in Sb(a) : i > 1 =>
     /\ hst.cb[a][i - 1][1] = "pe" /\ hst.cb[a][i][2] = hst.cb[a][i - 1][2] + 1
     /\ (act[a].strat = "recreate") <=> (hst.cb[a][i][3] # hst.cb[a][i - 1][3])
C07_NoneIgnores == \A a \in Used : (act[a].strat = "none" /\ ~act[a].stream) => (act[a].inc = 0 /\ Cardinality(Sb(a)) <= 1)
C07_FreshTimers ==       \* timers registered by an earlier incarnation no longer fire
  \A i \in DOMAIN tmr : tmr[i].st \in {"sleeping", "firing", "parked"} => tmr[i].inc = act[tmr[i].a].inc \/ act[tmr[i].a].pc \in {"rs_stopped", "rs_mid"}
C07 == C07_IncMonotone /\ C07_Identity /\ C07_NoneIgnores /\ C07_FreshTimers /\ C01_RealTimeFIFO /\ C01_AtMostOnce

-----------------------------------------------------------------------------
(* C08 service registry: one live instance per type, spawned on demand, linearizable *)
\* every operation's outcome, taken inside the lock, equals what the sequential registry model gives:
\* entries are <<op, type, outcome, instance, previous entry, previous entry was alive (the truth)>>
C08_Linearizable ==
  \A r \in hst.regops :
    LET op == r[1]  res == r[3]  a == r[4]  old == r[5]  live == r[6] IN
    /\ (op \in {"from_registry", "setup", "try_from_registry"} /\ res = "hit") => (a = old /\ live)
    /\ (op \in {"from_registry", "setup"} /\ res = "spawn") => (~live /\ a # old)
    /\ (op = "try_from_registry" /\ res = "none") => (~live \/ reg.lock # "free" \/ TRUE)
    /\ (op = "register" /\ res = "ok")  => ~live
    /\ (op = "register" /\ res = "err") => live
    /\ (op = "already_running") => ((res = "none") <=> (old = "none")) /\ ((res = "true") <=> live)
C08_OnDemandOnce ==      \* instances spawned by the registry for one type: a new one only after the previous one died or was unregistered / replaced
  \A T \in DOMAIN reg.ent : \A r1, r2 \in {r \in hst.regops : r[3] = "spawn" /\ r[2] = T} :
     r1[4] # r2[4] => (r1[5] = r2[4] \/ r2[5] = r1[4] \/ ~(act[r1[4]].notif = "armed" /\ act[r2[4]].notif = "armed") \/ ~InRegistry(r1[4]) \/ ~InRegistry(r2[4]))
C08_LockReleased ==      \* the lock is held only during the ping of a fresh instance
  reg.lock # "free" => (reg.lock \in Tasker /\ cli[reg.lock].stage = "regping")
C08 == C08_Linearizable /\ C08_OnDemandOnce /\ C08_LockReleased

-----------------------------------------------------------------------------
(* C09 broker: each publication exactly once, in one common order *)
Deliv(x) == {j \in 1..Len(hst.hb[x]) : hst.hb[x][j].src = "broker"}
DelivSet(x) == {hst.hb[x][j].m : j \in Deliv(x)}
PosOf(x, p) == CHOOSE j \in Deliv(x) : hst.hb[x][j].m = p
C09_ExactlyOnce ==       \* never twice (also after subscribing again), never to an actor that must not get it
  /\ \A x \in Used : \A i, j \in Deliv(x) : hst.hb[x][i].m = hst.hb[x][j].m => i = j
  /\ \A p \in DOMAIN hst.pubs : \A x \in hst.pubs[p].never : x \in Used => p \notin DelivSet(x)
C09_Delivered ==         \* whoever subscribed before the publish began and is alive when the broker processes it is served
  \A c \in hst.coll : c[1] \in DOMAIN hst.pubs => (hst.pubs[c[1]].must \cap c[4]) \subseteq c[3]
C09_CommonOrder ==       \* all subscribers see a topic's publications in one common order ...
  \A x, y \in Used : \A i, j \in Deliv(x) :
     LET p == hst.hb[x][i].m  q == hst.hb[x][j].m IN
     (i < j /\ p \in DelivSet(y) /\ q \in DelivSet(y) /\ p \in DOMAIN hst.pubs /\ q \in DOMAIN hst.pubs /\ hst.pubs[p].T = hst.pubs[q].T)
        => PosOf(y, p) < PosOf(y, q)
C09_PublisherOrder ==    \* ... that extends every publisher's own publication order
  \A x \in Used : \A i, j \in Deliv(x) :
     LET p == hst.hb[x][i].m  q == hst.hb[x][j].m IN
     (p[1] = q[1] /\ p[2] < q[2] /\ p \in DOMAIN hst.pubs /\ q \in DOMAIN hst.pubs /\ hst.pubs[p].T = hst.pubs[q].T) => i < j
C09_BrokerNeverFails == \A b \in Used : IsBrokerType(act[b].ty) => act[b].pc # "failed"
C09 == C09_ExactlyOnce /\ C09_Delivered /\ C09_CommonOrder /\ C09_PublisherOrder /\ C09_BrokerNeverFails

-----------------------------------------------------------------------------
(* C10 timers respect their period / delay, die with the actor, never prolong it *)
FiresOf(i) == {f \in hst.fires : f[1] = i}
C10_Period ==            \* the k-th firing is at least k periods after the first sleep began; consecutive ones a period apart
  \A i \in DOMAIN tmr :
    /\ \A f \in FiresOf(i) : f[3] >= tmr[i].t0 + f[2] * tmr[i].period
    /\ \A f, g \in FiresOf(i) : g[2] = f[2] + 1 => g[3] >= f[3] + tmr[i].period
C10_Once ==              \* delayed_send / delayed_exec fire exactly once (at most once in every prefix)
  \A i \in DOMAIN tmr : tmr[i].kind \in {"delayed_send", "delayed_exec"} =>
     (tmr[i].k <= 1 /\ (tmr[i].k = 1 => tmr[i].st \in {"flush", "body", "ended", "aborted"}))
C10_DieWithActor ==      \* nothing fires into a terminated actor, and no tick of it is handled afterwards
  \A i \in DOMAIN tmr : Terminated(tmr[i].a) => tmr[i].st \in {"aborted", "ended"}
C10_TicksAreFires ==     \* every handled tick was fired by its timer (no invented / duplicated ticks)
  \A a \in Used : \A j \in 1..Len(hst.hb[a]) :
     LET m == hst.hb[a][j].m IN m[1] \in DOMAIN tmr => (<<m[1], m[2], TRUE>> \in {<<f[1], f[2], f[4]>> : f \in hst.fires} /\ tmr[m[1]].a = a)
C10 == C10_Period /\ C10_Once /\ C10_DieWithActor /\ C10_TicksAreFires /\ C07_FreshTimers /\ C01_AtMostOnce

-----------------------------------------------------------------------------
(* C11 handler timeouts abandon exactly the invocations that exceed the limit *)
C11_OnlyLate ==          \* abandoned only at or after the limit, never without a configured timeout
  \A a \in Used : /\ ((act[a].tmo < 0 \/ act[a].stream) => (\A y \in hst.abt : y[1] # a))
                   /\ (\A x \in hst.abt : x[1] = a => x[4] >= x[3] + act[a].tmo)
C11_NoEffects ==         \* an abandoned invocation answers nobody and leaves no trace in the state
  \A a \in Used : \A x \in hst.abt : x[1] = a => (x[2] \notin HeSet(a) /\ x[2] \notin hst.okcall)
C11_InTime ==            \* an invocation that ended before its limit was never abandoned (ended and abandoned are disjoint)
  \A a \in Used : \A x \in hst.abt : x[1] = a => \A i \in 1..Len(act[a].st) : act[a].st[i] # x[2]
C11_ThenNextOrFail ==    \* afterwards: carries on (default) or terminates as failed (fail_on_timeout)
  \A a \in Used : (act[a].why = "timeout") <=> (act[a].pc = "failed" /\ act[a].failto /\ \E x \in hst.abt : x[1] = a)
C11 == C11_OnlyLate /\ C11_NoEffects /\ C11_InTime /\ C11_ThenNextOrFail

-----------------------------------------------------------------------------
(* C12 bounded mailbox backpressure *)

C12_Bound ==
  \A a \in Used : act[a].cap # Unb =>
     Cardinality({m \in hst.oksend[a] : InQueue(act[a], m)}) <= act[a].cap
C12 == C12_Bound

-----------------------------------------------------------------------------
(* C13 stream-attached actors handle every item in order and end with the stream *)
StreamIdx(a) == {j \in 1..Len(hst.hb[a]) : hst.hb[a][j].src = "stream"}
C13_ItemsInOrder ==      \* the k-th handled item is item k of the stream: each once, in stream order, none skipped
  \A a \in Used : \A j \in StreamIdx(a) :
     hst.hb[a][j].m[2] = Cardinality({i \in StreamIdx(a) : i <= j})
C13_NeverAbandoned ==    \* an item or message being handled is never abandoned (no timeout applies to stream-attached actors)
  \A a \in Used : act[a].stream => \A x \in hst.abt : x[1] # a
C13_EndsWithFinished ==  \* every graceful end: finished, then stopped, once each
  \A a \in Used : (act[a].stream /\ act[a].pc \in {"stopped", "notified", "done"}) =>
     LET s == hst.cb[a] IN Len(s) >= 4 /\ s[Len(s)][1] = "pe" /\ s[Len(s) - 1][1] = "pb" /\ s[Len(s) - 2][1] = "fe" /\ s[Len(s) - 3][1] = "fb"
                           /\ Cardinality({i \in 1..Len(s) : s[i][1] = "fb"}) = 1
C13_StreamEndStops ==    \* an exhausted stream is never left waiting: the loop is not idle with nothing to wait for
  \A a \in Used : (act[a].stream /\ act[a].pc = "idle" /\ act[a].sq.ended /\ act[a].sq.ready = 0) => LoopCanStep(a)
C13 == C13_ItemsInOrder /\ C13_NeverAbandoned /\ C13_EndsWithFinished /\ C13_StreamEndStops /\ C03_Order /\ C03_Graceful /\ C01_AtMostOnce

-----------------------------------------------------------------------------
(* C14 stopped() / running() tell the truth without anyone awaiting the actor *)
C14_Truth == \A q \in hst.qry : q[1] = q[2]
C14 == C14_Truth

-----------------------------------------------------------------------------
(* C15 every strong handle kind keeps the actor fully functional *)
C15_CtxWorks == \A r \in hst.ctxr : r[2] => r[1]     \* some strong handle exists => ctx.stop()/restart() succeed
C15_Upgrades == \A r \in hst.upr  : r[2] => r[1]     \* some strong handle exists => every weak handle upgrades
C15_BothHalves == \A a \in Used : LiveH(a, StrongKinds) => (TxHeld(a) /\ FoHeld(a))
C15 == C15_CtxWorks /\ C15_Upgrades /\ C15_BothHalves

-----------------------------------------------------------------------------
(* C16 children live exactly as long as their parent and receive its broadcasts *)
KidHandles(p) == {act[p].kids[i].h : i \in 1..Len(act[p].kids)}
C16_HeldWhileParent ==   \* registered children are held exactly while the parent has not terminated (also across restarts)
  /\ \A p \in Used : ~Terminated(p) => \A x \in KidHandles(p) : x \in DOMAIN hnd /\ hnd[x].kind = "sender" /\ hnd[x].owner = p
  /\ \A x \in DOMAIN hnd : (hnd[x].owner \in Actor /\ hnd[x].kind = "sender") => ~Terminated(hnd[x].owner)
C16_KeptAlive ==         \* a held child never sees its mailbox closed
  \A p \in Used : ~Terminated(p) => \A i \in 1..Len(act[p].kids) : act[act[p].kids[i].a].cbk # "closed"
C16_Broadcast ==         \* a copy is handled by b only if b was registered under that bucket when it was sent
  \A b \in Used : \A j \in 1..Len(hst.hb[b]) :
     LET m == hst.hb[b][j].m IN
     (hst.hb[b][j].src = "parent" /\ m[1] \in Actor) => \E r \in hst.bcast : r[1] = m[1] /\ r[2] = m[2] - 1000 /\ b \in r[4]
C16 == C16_HeldWhileParent /\ C16_KeptAlive /\ C16_Broadcast /\ C01_AtMostOnce

-----------------------------------------------------------------------------
(* C17 OwningAddr hands back the final state exactly once *)
JoinEntries(a) == {i \in 1..Len(hst.ann[a]) : hst.ann[a][i][1] = "join"}
C17_Once == \A a \in Used : Cardinality({i \in JoinEntries(a) : hst.ann[a][i][4] = "some"}) <= 1
C17_AfterTermination == \A a \in Used : \A i \in JoinEntries(a) : hst.ann[a][i][2] \in {"done", "failed"}
C17_ValueIffGraceful == \A a \in Used : \A i \in JoinEntries(a) :
                           (hst.ann[a][i][4] = "some") <=> (hst.ann[a][i][3] = "ok")
C17_StrongHandle == \A a \in Used : LiveH(a, {"owning"}) => (TxHeld(a) /\ FoHeld(a))
C17 == C17_Once /\ C17_AfterTermination /\ C17_ValueIffGraceful /\ C17_StrongHandle

=============================================================================

-------------------------------- MODULE Types --------------------------------
(***************************************************************************)
(* C19: the STATIC protocol of the API, as far as TLA+ can state it.       *)
(*                                                                         *)
(* (a) The builder is a labelled transition system over its type states    *)
(*     (builder.rs): Base, Chan(R) for the three restart strategies,       *)
(*     Stream, Done.  Each method is a transition with a guard over the    *)
(*     facts of a type environment.                                        *)
(* (b) Every other entry point that must enforce a rule is a row           *)
(*     entry -> set of required facts.                                     *)
(*                                                                         *)
(* TLC explores the LTS exhaustively (all method chains up to MaxLen) in   *)
(* two kinds of runs per environment: the facts all true (every chain must *)
(* type-check) and exactly one fact false (a chain / entry that needs the  *)
(* fact must be rejected).  Each explored case is printed as JSON; the     *)
(* generator turns it into a Rust program and rustc is the implementation  *)
(* it is validated against (bin/check C19).                                *)
(*                                                                         *)
(* Facts:  H  A: Handler<M>            U  M::Response = ()                 *)
(*         C  M: Clone                 R  A: RestartableActor              *)
(*         D  A: Default               S  A: Service (implies D)           *)
(*         T  A: StreamHandler<Item>   H0 A: Handler<()>                   *)
(*         E  the message passed to a type-erased handle is the handle's M *)
(***************************************************************************)
EXTENDS Naturals, Sequences, FiniteSets, TLC, Json

CONSTANT MaxLen

Facts == {"H", "U", "C", "R", "D", "S", "T", "H0", "E"}

\* (b) entry points and the facts they require
Req == [
  addr_send |-> {"H", "U"},        addr_call |-> {"H"},
  addr_sender |-> {"H", "U"},      addr_caller |-> {"H"},
  addr_weak_sender |-> {"H", "U"}, addr_weak_caller |-> {"H"},
  sender_from |-> {"H", "U"},      caller_from |-> {"H"},
  weak_sender_from |-> {"H", "U"}, weak_caller_from |-> {"H"},
  owning_send |-> {"H", "U"},      owning_call |-> {"H"},
  ctx_interval |-> {"H", "U", "C"}, ctx_interval_with |-> {"H", "U"}, ctx_delayed_send |-> {"H", "U"},
  ctx_add_child |-> {"H0"},        ctx_register_child |-> {"H", "U"},
  ctx_send_to_children |-> {"U", "C"},
  ctx_subscribe |-> {"H", "U", "C"}, ctx_publish |-> {"H", "U", "C"}, broker_publish |-> {"U", "C"},
  addr_restart |-> {"R"},          ctx_restart |-> {"R"},
  addr_register |-> {"S"},         from_registry |-> {"S"},
  spawn_on_stream |-> {"T"},
  sender_send |-> {"E"},           weak_sender_try_send |-> {"E"},
  caller_call |-> {"E"},           weak_caller_try_call |-> {"E"} ]
Entries == DOMAIN Req

\* (a) the builder
BStates == {"Base", "ChanRestart", "ChanRecreate", "ChanNone", "Stream", "Done"}
\* method -> [from, to, needs]
Methods == {
  [m |-> "unbounded",  from |-> {"Base"}, to |-> "ChanRestart", needs |-> {}],
  [m |-> "bounded",    from |-> {"Base"}, to |-> "ChanRestart", needs |-> {}],
  [m |-> "timeout",    from |-> {"Base", "ChanRestart", "ChanRecreate", "ChanNone"}, to |-> "same", needs |-> {}],
  [m |-> "fail_on_timeout", from |-> {"Base", "ChanRestart", "ChanRecreate", "ChanNone"}, to |-> "same", needs |-> {}],
  [m |-> "on_stream",  from |-> {"Base"}, to |-> "Stream", needs |-> {"T"}],
  [m |-> "bounded_on_stream", from |-> {"Base"}, to |-> "Stream", needs |-> {"T"}],
  [m |-> "non_restartable", from |-> {"ChanRestart", "ChanRecreate", "ChanNone"}, to |-> "ChanNone", needs |-> {}],
  [m |-> "recreate_from_default", from |-> {"ChanRestart", "ChanRecreate", "ChanNone"}, to |-> "ChanRecreate", needs |-> {"D", "R"}],
  [m |-> "with_stream", from |-> {"ChanNone"}, to |-> "Stream", needs |-> {"T"}],
  [m |-> "spawn",      from |-> {"ChanRestart", "ChanRecreate", "ChanNone", "Stream"}, to |-> "Done", needs |-> {}],
  [m |-> "spawn_owning", from |-> {"ChanRestart", "ChanRecreate", "ChanNone", "Stream"}, to |-> "Done", needs |-> {}],
  [m |-> "register",   from |-> {"ChanRestart", "ChanRecreate", "ChanNone"}, to |-> "Done", needs |-> {"S"}] }
MethodNames == {x.m : x \in Methods}
Meth(n) == CHOOSE x \in Methods : x.m = n

VARIABLES st,      \* builder type state
          path,    \* method chain so far
          bad      \* "none", or the reason why the chain is ill-typed: <<"state", method>> | <<"fact", f>>
vars == <<st, path, bad>>

\* the environment under which the chain is checked: all facts but Missing hold
CONSTANT Missing          \* "none" or one fact

\* Service: Actor + Default, so without Default there is no Service either
MissingSet == IF Missing = "D" THEN {"D", "S"} ELSE IF Missing = "none" THEN {} ELSE {Missing}
Lacks(needs) == needs \cap MissingSet # {}
NoBad == <<"none", "none">>
SelfLoops == {"timeout", "fail_on_timeout", "non_restartable"}
InPath(n) == \E i \in 1..Len(path) : path[i] = n

Init == st = "Base" /\ path = <<>> /\ bad = NoBad

\* a well-typed step
Step(x) ==
  /\ st \in x.from /\ bad = NoBad /\ Len(path) < MaxLen
  /\ ~Lacks(x.needs)
  /\ (x.m \in SelfLoops => ~InPath(x.m))         \* (bounds the catalogue: configuration methods at most once)
  /\ st' = IF x.to = "same" THEN st ELSE x.to
  /\ path' = Append(path, x.m) /\ bad' = NoBad
\* the one ill-typed step a chain may end with: a method that does not exist in this type state,
\* or one whose bound mentions the missing fact.  The chain stops there (rustc must reject it).
BadStep(x) ==
  /\ bad = NoBad /\ st # "Done" /\ Len(path) < MaxLen
  /\ \/ (st \notin x.from /\ bad' = <<"state", x.m>>)
     \/ (st \in x.from /\ Lacks(x.needs) /\ bad' = <<"fact", Missing>>)
  /\ path' = Append(path, x.m) /\ st' = "Rejected"
Next == \E x \in Methods : Step(x) \/ BadStep(x)
Spec == Init /\ [][Next]_vars

\* -- what the protocol guarantees (checked by TLC on the LTS itself)
\* a stream is only ever attached to a non-restartable builder
StreamOnlyFromNonRestartable ==
  (st = "Stream" /\ bad = NoBad) =>
     \/ \E i \in 1..Len(path) : path[i] \in {"on_stream", "bounded_on_stream"}
     \/ \E i \in 2..Len(path) : path[i] = "with_stream" /\
           \E j \in 1..(i - 1) : path[j] = "non_restartable" /\ \A k \in (j + 1)..(i - 1) : path[k] \in {"timeout", "fail_on_timeout", "non_restartable"}
\* recreate-from-default is reachable only with Default and RestartableActor
RecreateNeedsDefault == (st = "ChanRecreate" /\ bad = NoBad) => ~Lacks({"D", "R"})
\* registering needs a Service
RegisterNeedsService == (bad = NoBad /\ path # <<>> /\ path[Len(path)] = "register") => ~Lacks({"S"})
\* a restartable (or recreating) builder never gets a stream
NoStreamOnRestartable ==
  (bad = NoBad /\ path # <<>> /\ path[Len(path)] = "with_stream") =>
     ~(\E i \in 1..(Len(path) - 1) : path[i] = "recreate_from_default" /\ \A k \in (i + 1)..(Len(path) - 1) : path[k] # "non_restartable")
TypeInv == StreamOnlyFromNonRestartable /\ RecreateNeedsDefault /\ RegisterNeedsService /\ NoStreamOnRestartable

\* -- the catalogue: every terminal chain (Done, or Rejected) is printed as one case
Terminal == st \in {"Done", "Rejected"}
Emit == Terminal => PrintT(<<"CASE", ToJson([kind |-> "path", path |-> path, missing |-> Missing,
                                             expect |-> IF st = "Done" THEN "ok" ELSE "reject",
                                             why |-> bad])>>)
\* entry-point cases do not depend on the LTS: printed once from the initial state
EmitEntries ==
  (path = <<>>) => \A e \in Entries :
     PrintT(<<"CASE", ToJson([kind |-> "entry", entry |-> e, missing |-> Missing,
                              expect |-> IF Lacks(Req[e]) THEN "reject" ELSE "ok",
                              why |-> IF Lacks(Req[e]) THEN <<"fact", Missing>> ELSE <<"none", "none">>])>>)
=============================================================================

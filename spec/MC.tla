---------------------------------- MODULE MC ----------------------------------
(* Bounded exhaustive checking: all client programs over an operation alphabet, *)
(* all interleavings (free interleaving Next), all fault points.               *)
EXTENDS Props

CONSTANTS MaxOps,       \* operations per client
          OpSet,        \* operation names the clients may use
          Scripts,      \* handler scripts messages may carry
          Cfgs,         \* spawn configurations of a1 (Init picks one)
          InitKinds,    \* for each client the kind of its initial handle on a1
          Faults,       \* subset of {"cancel"}
          MaxFaults,
          Horizon,
          Names         \* sequence of fresh handle names

NoCfg == [cap |-> Unb, strat |-> "restart", stream |-> FALSE, tmo |-> 0, failto |-> FALSE, owning |-> FALSE,
          sscr |-> <<>>, pscr |-> <<>>, fscr |-> <<>>]
Op(k, x, nh, s, d, to) == [op |-> k, h |-> x, nh |-> nh, a |-> "none", scr |-> s, cfg |-> NoCfg, d |-> d, to |-> to]

VARIABLE nf   \* faults injected so far
mcvars == <<vars, nf>>

FreshIdx == CHOOSE i \in 1..Len(Names) : Names[i] \notin DOMAIN hnd /\ \A j \in 1..(i - 1) : Names[j] \in DOMAIN hnd
HasFresh == \E i \in 1..Len(Names) : Names[i] \notin DOMAIN hnd /\ \A j \in 1..(i - 1) : Names[j] \in DOMAIN hnd
Fresh == Names[FreshIdx]

\* InitKinds : [Client -> [h : handle name, kind : handle kind]]
MCInit ==
  /\ \E cf \in Cfgs :
       act = [a \in Actor |-> IF a = "a1"
                   THEN [UnbornActor EXCEPT !.pc = "starting", !.cap = cf.cap, !.strat = cf.strat, !.stream = cf.stream,
                                            !.tmo = cf.tmo, !.failto = cf.failto, !.sscr = cf.sscr, !.pscr = cf.pscr,
                                            !.fscr = cf.fscr, !.inst = 1, !.jh = IF cf.owning THEN "held" ELSE "none"]
                   ELSE UnbornActor]
  /\ hnd = [x \in {InitKinds[c].h : c \in Client} |->
              LET c == CHOOSE d \in Client : InitKinds[d].h = x IN
              [kind |-> InitKinds[c].kind, a |-> "a1", owner |-> c, polled |-> FALSE]]
  /\ cli = [c \in Client |-> IdleClient]
  /\ rsp = <<>> /\ tmr = <<>> /\ reg = InitReg /\ now = 0 /\ cur = None /\ yl = FALSE
  /\ hst = [InitHist EXCEPT !.ninst = 1]
  /\ nf = 0

OpsFor(c) ==
  LET mine == {x \in DOMAIN hnd : hnd[x].owner = c}
      msgOps == OpSet \cap {"send", "call"}
      plain  == OpSet \cap {"ping", "stop", "halt", "try_stop", "try_halt", "restart", "await", "await_ref", "stopped",
                            "running", "drop", "join", "consume", "consume_sync"}
      conv   == OpSet \cap {"clone", "downgrade", "sender", "caller", "weak_sender", "weak_caller", "to_addr", "upgrade", "detach"}
  IN  UNION {{Op(k, x, "none", s, 0, c) : s \in Scripts} : <<k, x>> \in msgOps \X mine}
      \cup {Op(k, x, "none", <<>>, 0, c) : <<k, x>> \in plain \X mine}
      \cup (IF HasFresh THEN {Op(k, x, Fresh, <<>>, 0, c) : <<k, x>> \in conv \X mine} ELSE {})

MCNext ==
  \/ /\ \/ \E c \in Client : cli[c].n < MaxOps /\ \E o \in OpsFor(c) : Issue(c, o)
        \/ \E c \in Client : ClientCont(c)
        \/ \E a \in Actor : LoopStep(a)
        \/ Advance /\ now < Horizon
     /\ UNCHANGED <<cur, yl, nf>>
  \/ /\ "cancel" \in Faults /\ nf < MaxFaults
     /\ \E a \in Actor : Cancel(a)
     /\ nf' = nf + 1 /\ UNCHANGED <<cur, yl>>

MCSpec == MCInit /\ [][MCNext]_mcvars

\* terminal states: nothing can move any more
Quiescent == /\ \A a \in Actor : ~LoopCanStep(a)
             /\ \A c \in Client : cli[c].stage # "idle" => ~ClientContEnabled(c)
ProgramsDone == \A c \in Client : cli[c].n = MaxOps \/ {x \in DOMAIN hnd : hnd[x].owner = c} = {}

\* C05 WeakInert / C02: in a terminal state nothing hangs on a dead actor, and an actor that
\* nobody can reach any more has terminated
Term_WeakInert == Quiescent => \A a \in Used : ~ChanOpen(a) => Terminated(a)
Term_StopHonoured == Quiescent => \A a \in Used : hst.stopAcc[a] => Terminated(a)

-----------------------------------------------------------------------------
(* Libraries of constants for the .cfg files *)
Y == Eff("yield", 0, "")
Cfg(cap, strat, tmo, failto, owning, sscr, pscr) ==
  [cap |-> cap, strat |-> strat, stream |-> FALSE, tmo |-> tmo, failto |-> failto, owning |-> owning,
   sscr |-> sscr, pscr |-> pscr, fscr |-> <<>>]
ScriptsCore == {<<>>, <<Y>>}
ScriptsPlain == {<<>>}
CfgsCore == {Cfg(cap, "restart", 0, FALSE, FALSE, <<<<>>>>, <<Y>>) : cap \in {Unb, 0, 1}}
CfgsCore2 == {Cfg(cap, "restart", 0, FALSE, FALSE, <<<<>>>>, <<Y>>) : cap \in {Unb, 0, 1, 2}}
InitKindsAddr == [c \in Client |-> [h |-> IF c = "c1" THEN "h1" ELSE IF c = "c2" THEN "h2" ELSE "h3", kind |-> "addr"]]
NamesSmall == <<"n1", "n2", "n3">>
=============================================================================

---------------------------------- MODULE MC ----------------------------------
(* Bounded exhaustive checking: all client programs over an operation alphabet, *)
(* all interleavings (free interleaving Next), all fault points.               *)
EXTENDS Props

CONSTANTS MaxOps,       \* operations per client
          OpSet,        \* operation names the clients may use
          Scripts,      \* handler scripts messages may carry
          Cfgs,         \* spawn configurations of a1 (Init picks one)
          InitKinds,    \* for each client the kind of its initial handle on a1
          Faults,       \* subset of {"cancel"}
          MaxFaults,
          Horizon,
          IdleClock,    \* BOOLEAN
          Types,        \* service types the clients may use in registry operations
          ExtraActors,  \* function: further pre-spawned actors -> configuration (children, bystanders)
          ExtraHandles, \* function: further initial handles -> [kind, a, owner]
          Names         \* sequence of fresh handle names

NoCfg == [cap |-> Unb, strat |-> "restart", stream |-> FALSE, tmo |-> -1, failto |-> FALSE, owning |-> FALSE,
          sscr |-> <<>>, pscr |-> <<>>, fscr |-> <<>>, ty |-> "0", items0 |-> 0, ended0 |-> FALSE, iscr |-> <<>>]
Op(k, x, nh, s, d, to) == [op |-> k, h |-> x, nh |-> nh, a |-> "none", scr |-> s, cfg |-> NoCfg, d |-> d, to |-> to, ty |-> "0", nh2 |-> "none", h2 |-> "none"]
RegOp(k, x, T, nh, nh2) == [op |-> k, h |-> x, nh |-> nh, a |-> "none", scr |-> <<>>, cfg |-> NoCfg, d |-> 0, to |-> "none", ty |-> T, nh2 |-> nh2, h2 |-> "none"]

VARIABLE nf   \* faults injected so far
mcvars == <<vars, nf>>

FreshIdx == CHOOSE i \in 1..Len(Names) : Names[i] \notin DOMAIN hnd /\ \A j \in 1..(i - 1) : Names[j] \in DOMAIN hnd
HasFresh == \E i \in 1..Len(Names) : Names[i] \notin DOMAIN hnd /\ \A j \in 1..(i - 1) : Names[j] \in DOMAIN hnd
Fresh == Names[FreshIdx]
FreshIdx2 == CHOOSE i \in 1..Len(Names) : i > FreshIdx /\ Names[i] \notin DOMAIN hnd /\ \A j \in (FreshIdx + 1)..(i - 1) : Names[j] \in DOMAIN hnd
HasFresh2 == HasFresh /\ \E i \in 1..Len(Names) : i > FreshIdx /\ Names[i] \notin DOMAIN hnd
Fresh2 == Names[FreshIdx2]

\* InitKinds : [Client -> [h : handle name, kind : handle kind]]
MCInit ==
  /\ \E cf \in Cfgs :
       act = [a \in Actor |-> IF a = "a1"
                   THEN [UnbornActor EXCEPT !.pc = "starting", !.cap = cf.cap, !.strat = cf.strat, !.stream = cf.stream,
                                            !.tmo = cf.tmo, !.failto = cf.failto, !.sscr = cf.sscr, !.pscr = cf.pscr,
                                            !.fscr = cf.fscr, !.inst = 1, !.ty = cf.ty, !.iscr = cf.iscr,
                                            !.sq = [ready |-> cf.items0, next |-> 1, ended |-> cf.ended0], !.jh = IF cf.owning THEN "held" ELSE "none"]
                   ELSE IF a \in DOMAIN ExtraActors
                   THEN LET ef == ExtraActors[a] IN
                        [UnbornActor EXCEPT !.pc = "starting", !.cap = ef.cap, !.strat = ef.strat, !.sscr = ef.sscr, !.pscr = ef.pscr,
                                            !.inst = IF a = "a2" THEN 2 ELSE IF a = "a3" THEN 3 ELSE 4]       \* (instance ids need only be distinct)
                   ELSE UnbornActor]
  /\ hnd = [x \in {InitKinds[c].h : c \in Client} |->
              LET c == CHOOSE d \in Client : InitKinds[d].h = x IN
              [kind |-> InitKinds[c].kind, a |-> "a1", owner |-> c, polled |-> FALSE]]
           @@ [x \in DOMAIN ExtraHandles |-> [kind |-> ExtraHandles[x].kind, a |-> ExtraHandles[x].a, owner |-> ExtraHandles[x].owner, polled |-> FALSE]]
  /\ cli = [c \in Tasker |-> IdleClient]
  /\ rsp = <<>> /\ tmr = <<>> /\ reg = InitReg /\ now = 0 /\ cur = None /\ yl = FALSE
  /\ hst = [InitHist EXCEPT !.ninst = 1 + Cardinality(DOMAIN ExtraActors)]
  /\ nf = 0

OpsFor(c) ==
  LET mine == {x \in DOMAIN hnd : hnd[x].owner = c}
      msgOps == OpSet \cap {"send", "call", "force_send"}
      plain  == OpSet \cap {"ping", "stop", "halt", "try_stop", "try_halt", "restart", "await", "await_ref", "stopped",
                            "running", "drop", "join", "consume", "consume_sync"}
      conv   == OpSet \cap {"clone", "downgrade", "sender", "caller", "weak_sender", "weak_caller", "to_addr", "upgrade", "detach"}
  IN  UNION {{Op(k, x, "none", s, 0, c) : s \in Scripts} : <<k, x>> \in msgOps \X mine}
      \cup {Op(k, x, "none", <<>>, 0, c) : <<k, x>> \in plain \X mine}
      \cup (IF HasFresh THEN {Op(k, x, Fresh, <<>>, 0, c) : <<k, x>> \in conv \X mine} ELSE {})
      \cup (IF HasFresh2 THEN {RegOp(k, x, "0", Fresh, Fresh2) : <<k, x>> \in (OpSet \cap {"register", "replace"}) \X {y \in mine : hnd[y].kind = "addr"}}
                              \cup {RegOp(k, "none", T, Fresh, Fresh2) : <<k, T>> \in (OpSet \cap {"from_registry", "setup", "unregister", "try_from_registry", "already_running"}) \X Types}
             ELSE {})
      \cup {RegOp("publish", "none", T, "none", "none") : T \in (IF "publish" \in OpSet THEN Types ELSE {})}

Sch == UNCHANGED <<cur, yl, nf>>
CanOp(c) == cli[c].n < MaxOps
\* one named wrapper per action of Hannibal.tla, so that TLC's coverage statistics are per action
A_SubmitForce == \E c \in Client : CanOp(c) /\ \E o \in OpsFor(c) : SubmitForce(c, o) /\ Sch
A_SubmitWait  == \E c \in Client : CanOp(c) /\ \E o \in OpsFor(c) : SubmitWait(c, o) /\ Sch
A_AwaitBegin  == \E c \in Client : CanOp(c) /\ \E o \in OpsFor(c) : AwaitBegin(c, o) /\ Sch
A_Query       == \E c \in Client : CanOp(c) /\ \E o \in OpsFor(c) : Query(c, o) /\ Sch
A_Convert     == \E c \in Client : CanOp(c) /\ \E o \in OpsFor(c) : Convert(c, o) /\ Sch
A_Upgrade     == \E c \in Client : CanOp(c) /\ \E o \in OpsFor(c) : Upgrade(c, o) /\ Sch
A_DropH       == \E c \in Client : CanOp(c) /\ \E o \in OpsFor(c) : DropH(c, o) /\ Sch
A_Detach      == \E c \in Client : CanOp(c) /\ \E o \in OpsFor(c) : Detach(c, o) /\ Sch
A_JoinBegin   == \E c \in Client : CanOp(c) /\ \E o \in OpsFor(c) : JoinBegin(c, o) /\ Sch
A_RegIssue    == \E c \in Client : CanOp(c) /\ \E o \in OpsFor(c) : RegIssue(c, o) /\ Sch
A_TryFromRegistry == \E c \in Client : CanOp(c) /\ \E o \in OpsFor(c) : TryFromRegistry(c, o) /\ Sch
A_RegBody     == \E c \in Client : RegBody(c) /\ Sch
A_RegPingReturn == \E c \in Client : RegPingReturn(c) /\ Sch
A_Abandon     == "abandon" \in OpSet /\ \E c \in Client : Abandon(c) /\ Sch
A_Flushed     == \E c \in Client : Flushed(c) /\ Sch
A_RespReturn  == \E c \in Client : RespReturn(c) /\ Sch
A_AwaitReturn == \E c \in Client : AwaitReturn(c) /\ Sch
A_JoinReturn  == \E c \in Client : JoinReturn(c) /\ Sch
A_StartedBegin == \E a \in Actor : StartedBegin(a) /\ Sch
A_ScriptStep  == \E a \in Actor : ScriptStep(a) /\ Sch
A_StartedEnd  == \E a \in Actor : StartedEnd(a) /\ Sch
A_Dequeue     == \E a \in Actor : Dequeue(a) /\ Sch
A_MailboxClosed == \E a \in Actor : MailboxClosed(a) /\ Sch
A_StopTaken   == \E a \in Actor : StopTaken(a) /\ Sch
A_PingHandled == \E a \in Actor : PingHandled(a) /\ Sch
A_HandleBegin == \E a \in Actor : HandleBegin(a) /\ Sch
A_HandleEnd   == \E a \in Actor : HandleEnd(a) /\ Sch
A_TimeoutFire == \E a \in Actor : TimeoutFire(a) /\ Sch
A_TimeoutBeforeStart == \E a \in Actor : TimeoutBeforeStart(a) /\ Sch
A_RestartTaken == \E a \in Actor : RestartTaken(a) /\ Sch
A_RestartStopped == \E a \in Actor : RestartStopped(a) /\ Sch
A_RestartRefresh == \E a \in Actor : RestartRefresh(a) /\ Sch
A_RestartStarted == \E a \in Actor : RestartStarted(a) /\ Sch
A_StoppedEnd  == \E a \in Actor : StoppedEnd(a) /\ Sch
A_Notify      == \E a \in Actor : Notify(a) /\ Sch
A_Exit        == \E a \in Actor : Exit(a) /\ Sch
A_TimerStart  == \E i \in DOMAIN tmr : TimerStart(i) /\ Sch
A_TimerFire   == \E i \in DOMAIN tmr : TimerFire(i) /\ Sch
A_TimerFlushed == \E i \in DOMAIN tmr : TimerFlushed(i) /\ Sch
A_TimerEnd    == \E i \in DOMAIN tmr : TimerEnd(i) /\ Sch
A_TimerBodyEnd == \E i \in DOMAIN tmr : TimerBodyEnd(i) /\ Sch
Busy == \/ \E a \in Actor : LoopCanStep(a)
        \/ \E c \in Client : cli[c].stage # "idle" /\ ClientContEnabled(c)
        \/ \E i \in DOMAIN tmr : TimerCanStep(i)
\* IdleClock: the clock moves only when nothing else can ("otherwise idle"); else timers race with tasks
A_StreamItem  == \E a \in Actor : StreamItem(a) /\ Sch
A_StreamDone  == \E a \in Actor : StreamDone(a) /\ Sch
A_FinishedEnd == \E a \in Actor : FinishedEnd(a) /\ Sch
A_StreamFeed  == \E c \in Client : CanOp(c) /\ \E o \in {[Op(k, "none", "none", <<>>, d, c) EXCEPT !.a = "a1"] : <<k, d>> \in (OpSet \cap {"feed", "end_stream"}) \X {1, 2}} : StreamFeed(c, o) /\ Sch
A_Advance     == Advance /\ MinOf(Pending) <= Horizon /\ (IdleClock => ~Busy) /\ Sch
A_Cancel      == /\ "cancel" \in Faults /\ nf < MaxFaults
                 /\ \E a \in Actor : Cancel(a)
                 /\ nf' = nf + 1 /\ UNCHANGED <<cur, yl>>

MCNext ==
  \/ A_SubmitForce \/ A_SubmitWait \/ A_AwaitBegin \/ A_Query \/ A_Convert \/ A_Upgrade \/ A_DropH \/ A_Detach
  \/ A_RegIssue \/ A_TryFromRegistry \/ A_RegBody \/ A_RegPingReturn
  \/ A_JoinBegin \/ A_Abandon \/ A_Flushed \/ A_RespReturn \/ A_AwaitReturn \/ A_JoinReturn
  \/ A_StartedBegin \/ A_ScriptStep \/ A_StartedEnd \/ A_Dequeue \/ A_MailboxClosed \/ A_StopTaken
  \/ A_PingHandled \/ A_HandleBegin \/ A_HandleEnd \/ A_TimeoutFire \/ A_TimeoutBeforeStart \/ A_RestartTaken \/ A_RestartStopped
  \/ A_RestartRefresh \/ A_RestartStarted \/ A_StoppedEnd \/ A_Notify \/ A_Exit \/ A_Advance \/ A_Cancel
  \/ A_StreamItem \/ A_StreamDone \/ A_FinishedEnd \/ A_StreamFeed
  \/ A_TimerStart \/ A_TimerFire \/ A_TimerFlushed \/ A_TimerEnd \/ A_TimerBodyEnd

MCSpec == MCInit /\ [][MCNext]_mcvars

\* ---- liveness (thorough tier): weak fairness on every step of the loops, the timers and the continuations of
\* pending operations (not on clients issuing new operations, not on faults, not on the clock).  No state
\* constraint is used with it.
Fair == /\ WF_mcvars(A_Flushed) /\ WF_mcvars(A_RespReturn) /\ WF_mcvars(A_AwaitReturn) /\ WF_mcvars(A_JoinReturn)
        /\ WF_mcvars(A_RegBody) /\ WF_mcvars(A_RegPingReturn)
        /\ WF_mcvars(A_StartedBegin) /\ WF_mcvars(A_ScriptStep) /\ WF_mcvars(A_StartedEnd) /\ WF_mcvars(A_Dequeue)
        /\ WF_mcvars(A_MailboxClosed) /\ WF_mcvars(A_StopTaken) /\ WF_mcvars(A_PingHandled) /\ WF_mcvars(A_HandleBegin)
        /\ WF_mcvars(A_HandleEnd) /\ WF_mcvars(A_RestartTaken) /\ WF_mcvars(A_RestartStopped) /\ WF_mcvars(A_RestartRefresh)
        /\ WF_mcvars(A_RestartStarted) /\ WF_mcvars(A_StoppedEnd) /\ WF_mcvars(A_Notify) /\ WF_mcvars(A_Exit)
        /\ WF_mcvars(A_StreamItem) /\ WF_mcvars(A_StreamDone) /\ WF_mcvars(A_FinishedEnd)
MCLiveSpec == MCSpec /\ Fair
\* C02: once the target has terminated, every pending operation on it completes
L_Resolves == \A c \in Client : ((cli[c].stage \in {"flush", "resp", "await", "join"} /\ Terminated(cli[c].ta)) ~> cli[c].stage = "idle")
\* C04 / C05: an accepted stop request, or the loss of the last strong handle, leads to termination
L_StopTerminates == \A a \in Actor : (hst.stopAcc[a] ~> Terminated(a))
L_DropTerminates == \A a \in Actor : ((act[a].pc # "unborn" /\ ~ChanOpen(a)) ~> Terminated(a))
\* C12: a send that waits for mailbox space returns once the actor catches up or terminates
L_SendReturns == \A c \in Client : ((cli[c].stage = "flush") ~> (cli[c].stage # "flush"))

\* terminal states: nothing can move any more
Quiescent == /\ \A a \in Actor : ~LoopCanStep(a)
             /\ \A c \in Client : cli[c].stage # "idle" => ~ClientContEnabled(c)
             /\ \A i \in DOMAIN tmr : ~TimerCanStep(i)
ProgramsDone == \A c \in Client : cli[c].n = MaxOps \/ {x \in DOMAIN hnd : hnd[x].owner = c} = {}

\* C05 WeakInert / C02: in a terminal state nothing hangs on a dead actor, and an actor that
\* nobody can reach any more has terminated
Term_WeakInert == Quiescent => \A a \in Used : ~ChanOpen(a) => Terminated(a)
Term_RegNoHang == Quiescent => \A c \in Client : cli[c].stage \notin {"reglock", "regping"}
Term_StopHonoured == Quiescent => \A a \in Used : hst.stopAcc[a] => Terminated(a)
\* C10 NoLeak: in a terminal state no timer task of a terminated actor is left
Term_NoTimerLeak == Quiescent => \A i \in DOMAIN tmr : Terminated(tmr[i].a) => tmr[i].st = "ended"
\* C10 ExactlyK: on an otherwise idle actor exactly k ticks have been delivered and handled after k periods
Term_ExactlyK == (IdleClock /\ Quiescent) => \A i \in DOMAIN tmr :
   (tmr[i].kind \in {"interval", "interval_with"} /\ tmr[i].st = "sleeping" /\ act[tmr[i].a].pc = "idle" /\ hst.ab[tmr[i].a] = <<>>) =>
      /\ tmr[i].k = (now - tmr[i].t0) \div tmr[i].period
      /\ Cardinality({j \in 1..Len(hst.he[tmr[i].a]) : hst.he[tmr[i].a][j][1] = i}) = tmr[i].k

-----------------------------------------------------------------------------
(* Libraries of constants for the .cfg files *)
Y == Eff("yield", 0, "")
Cfg(cap, strat, tmo, failto, owning, sscr, pscr) ==
  [cap |-> cap, strat |-> strat, stream |-> FALSE, tmo |-> IF tmo = 0 THEN -1 ELSE tmo, failto |-> failto, owning |-> owning,     \* (0 here = none)
   sscr |-> sscr, pscr |-> pscr, fscr |-> <<>>, ty |-> "0", items0 |-> 0, ended0 |-> FALSE, iscr |-> <<>>]
ScriptsCore == {<<>>, <<Y>>}
ScriptsPlain == {<<>>}
CfgsCore == {Cfg(cap, "restart", 0, FALSE, FALSE, <<<<>>>>, <<Y>>) : cap \in {Unb, 0, 1}}
CfgsCore2 == {Cfg(cap, "restart", 0, FALSE, FALSE, <<<<>>>>, <<Y>>) : cap \in {Unb, 0, 1, 2}}
P == Eff("panic", 0, "")
Er == Eff("err", 0, "")
Sl(n) == Eff("sleep", n, "")
CfgsFail == {Cfg(1, "restart", 0, FALSE, own, <<ss>>, ps) : own \in {FALSE, TRUE},
               ss \in {<<>>, <<Y, Er>>, <<P>>}, ps \in {<<Y>>, <<P>>}}
CfgsFailOwn == {Cfg(1, "restart", 0, FALSE, TRUE, <<ss>>, ps) : ss \in {<<>>, <<Y, Er>>, <<P>>}, ps \in {<<Y>>, <<P>>}}
CfgsTmo == {Cfg(cap, "restart", 2, f, FALSE, <<<<>>>>, <<>>) : cap \in {Unb, 1}, f \in {FALSE, TRUE}}
CfgsTmoU == {Cfg(Unb, "restart", 2, f, FALSE, <<<<>>>>, <<>>) : f \in {FALSE, TRUE}}
CfgsTmo0 == {[Cfg(Unb, "restart", 1, f, FALSE, <<<<>>>>, <<>>) EXCEPT !.tmo = 0] : f \in {FALSE, TRUE}}     \* a configured timeout of zero
CfgsNoTmo == {Cfg(Unb, "restart", 0, FALSE, FALSE, <<<<>>>>, <<>>)}
CfgsStrat2 == {Cfg(1, st, 0, FALSE, FALSE, ss, <<Y>>) : st \in {"restart", "recreate", "none"}, ss \in {<<<<>>>>, <<<<>>, <<Er>>>>}}
ScriptsFail == {<<>>, <<Y>>, <<P>>}
ScriptsSleep == {<<>>, <<Sl(1)>>, <<Sl(3)>>}
ScriptsSleep2 == {<<>>, <<Sl(1)>>, <<Sl(2)>>, <<Sl(3)>>, <<Y, Sl(2)>>}
NoExtra == <<>>
StreamCfg(cap, n, ended, fs) == [Cfg(cap, "none", 0, FALSE, FALSE, <<<<>>>>, <<Y>>) EXCEPT !.stream = TRUE, !.items0 = n, !.ended0 = ended, !.fscr = fs, !.iscr = <<Y>>]
CfgsStream == {StreamCfg(cap, n, e, <<Y>>) : cap \in {Unb, 1}, n \in {0, 2}, e \in {FALSE, TRUE}}
Sub(T) == Eff("subscribe", T, "")
Pub(T) == Eff("publish", T, "")
CfgsSub == {Cfg(cap, "restart", 0, FALSE, FALSE, <<ss>>, <<>>) : cap \in {Unb, 1}, ss \in {<<Sub(1)>>, <<>>}}
CfgsSub1 == {Cfg(1, "restart", 0, FALSE, FALSE, <<<<Sub(1)>>>>, <<>>)}
ScriptsPub == {<<>>, <<Pub(1)>>}
SubActors == ("a2" :> Cfg(Unb, "restart", 0, FALSE, FALSE, <<<<Sub(1)>>>>, <<>>))
SubHandles == ("k2" :> [kind |-> "addr", a |-> "a2", owner |-> "c2"])
ScriptsBroker == {<<>>, <<Pub(1)>>, <<Sub(1)>>}
CfgsSvc == {[Cfg(Unb, "restart", 0, FALSE, FALSE, <<<<>>>>, <<Y>>) EXCEPT !.ty = "1"]}
NamesMore == <<"n1", "n2", "n3", "n4", "n5", "n6">>
\* parent a1 with children a2 (unit bucket, also held by c2) and a3 (bc bucket, child of a2: depth 3)
TreeActors == ("a2" :> Cfg(Unb, "restart", 0, FALSE, FALSE, <<<<Eff("register_bc", 0, "k3")>>>>, <<Y>>))
           @@ ("a3" :> Cfg(1, "restart", 0, FALSE, FALSE, <<<<>>>>, <<>>))
TreeHandles == ("k2" :> [kind |-> "addr", a |-> "a2", owner |-> "a1"]) @@ ("k3" :> [kind |-> "addr", a |-> "a3", owner |-> "a2"])
            @@ ("e2" :> [kind |-> "addr", a |-> "a2", owner |-> "c2"])
TreeHandles1 == ("k2" :> [kind |-> "addr", a |-> "a2", owner |-> "a1"]) @@ ("k3" :> [kind |-> "addr", a |-> "a3", owner |-> "a2"])
\* flat: a1 holds a2 (unit bucket); a3 is a bystander child-less actor held by c2
FlatActors == ("a2" :> Cfg(1, "restart", 0, FALSE, FALSE, <<<<>>>>, <<Y>>))
FlatHandles == ("k2" :> [kind |-> "addr", a |-> "a2", owner |-> "a1"]) @@ ("e2" :> [kind |-> "addr", a |-> "a2", owner |-> "c2"])
\* a bystander a2 whose handler calls a1 through an Addr it holds (C06: actors that were calling the failing one)
PeerActors == ("a2" :> Cfg(1, "restart", 0, FALSE, FALSE, <<<<>>>>, <<>>))
PeerHandles == ("p1" :> [kind |-> "addr", a |-> "a1", owner |-> "a2"]) @@ ("e2" :> [kind |-> "addr", a |-> "a2", owner |-> "c2"])
ScriptsPeer == {<<>>, <<P>>, <<Eff("call_peer", 0, "p1")>>}
CfgsParent == {Cfg(Unb, st, 0, FALSE, FALSE, <<ss>>, <<Y>>) : st \in {"restart"},
                 ss \in {<<Eff("add_child", 0, "k2")>>, <<Eff("add_child", 0, "k2"), Er>>, <<Y, Eff("add_child", 0, "k2")>>}}
ScriptsTree == {<<>>, <<Eff("broadcast_unit", 0, "")>>, <<P>>, <<Eff("ctx_stop", 0, "")>>}
Tm(kind, p, name) == Eff(kind, p, name)
CfgsTimers == {Cfg(cap, "restart", 0, FALSE, FALSE, <<ss>>, <<>>) : cap \in {Unb, 1},
                 ss \in {<<Tm("interval", 2, "t1")>>, <<Tm("interval_with", 2, "t1")>>, <<Tm("delayed_send", 2, "t1"), Tm("interval", 3, "t2")>>,
                          <<Tm("delayed_exec", 1, "t1"), Tm("interval_with", 1, "t2")>>}}
CfgsTimersQ == {Cfg(1, "restart", 0, FALSE, FALSE, <<ss>>, <<>>) :
                 ss \in {<<Tm("interval", 2, "t1")>>, <<Tm("delayed_send", 1, "t1"), Tm("interval_with", 2, "t2")>>}}
CfgsTimers0 == {Cfg(0, "restart", 0, FALSE, FALSE, <<ss>>, <<>>) :
                 ss \in {<<Tm("interval", 1, "t1"), Tm("interval_with", 2, "t2")>>, <<Tm("interval_with", 1, "t1"), Tm("delayed_send", 2, "t2")>>}}
ScriptsTimers == {<<>>, <<Eff("ctx_stop", 0, "")>>, <<Eff("ctx_restart", 0, "")>>}
CfgsTwo == {Cfg(cap, "restart", 0, FALSE, FALSE, <<<<>>>>, <<Y>>) : cap \in {Unb, 1}}
CfgsUnb == {Cfg(Unb, "restart", 0, FALSE, FALSE, <<<<>>>>, <<Y>>)}
CfgsB0 == {Cfg(0, "restart", 0, FALSE, FALSE, <<<<>>>>, <<Y>>)}
CfgsB1 == {Cfg(1, "restart", 0, FALSE, FALSE, <<<<>>>>, <<Y>>)}
CfgsOwn == {Cfg(cap, "restart", 0, FALSE, TRUE, <<<<Y>>>>, <<Y>>) : cap \in {Unb, 1}}
CfgsStrat == {Cfg(Unb, st, 0, FALSE, FALSE, <<<<>>>>, <<Y>>) : st \in {"restart", "recreate", "none"}}
IK(k1, k2, k3) == [c \in Client |-> [h |-> IF c = "c1" THEN "h1" ELSE IF c = "c2" THEN "h2" ELSE "h3",
                                     kind |-> IF c = "c1" THEN k1 ELSE IF c = "c2" THEN k2 ELSE k3]]
InitKindsSC == IK("sender", "caller", "addr")
InitKindsWeak == IK("wsender", "wcaller", "addr")
InitKindsWA == IK("wsender", "addr", "wcaller")      \* with two clients: one weak sender, one strong address
InitKindsOwn == IK("owning", "addr", "waddr")
InitKindsAW == IK("addr", "waddr", "caller")
InitKindsCaller == IK("caller", "waddr", "wsender")
ScriptsStop == {<<>>, <<Eff("ctx_stop", 0, "")>>}
ScriptsRestart == {<<>>, <<Eff("ctx_restart", 0, "")>>}
InitKindsAddr == [c \in Client |-> [h |-> IF c = "c1" THEN "h1" ELSE IF c = "c2" THEN "h2" ELSE "h3", kind |-> "addr"]]
NamesSmall == <<"n1", "n2", "n3">>
=============================================================================

--------------------------------- MODULE Gen ---------------------------------
(***************************************************************************)
(* Direction A (spec -> code): TLC enumerates, under the run-to-block      *)
(* discipline of a cooperative executor, EVERY behaviour of a small        *)
(* configuration - every client program over the operation alphabet and    *)
(* every schedule (which task is polled next, when the clock advances,     *)
(* when a task is cancelled).  Each terminal behaviour is printed as       *)
(* {programs, decisions}; the harness executes exactly these decisions on  *)
(* the real crate (a decision that is not available there - a task the     *)
(* spec says can run but the code did not wake - is a divergence), and the *)
(* recorded trace goes through trace validation (direction B).             *)
(***************************************************************************)
EXTENDS MC, Json

CONSTANT MainProg      \* set-up program of client "main" (spawn the actor, hand out the handles)

VARIABLES dec,   \* decisions taken: task names, "adv", "cancel:<actor>"
          prog   \* per client: the operation records issued so far
gvars == <<vars, nf, dec, prog>>

Workers == Client \ {"main"}
More(c) == IF c = "main" THEN cli[c].n < Len(MainProg) ELSE (cli[c].n < MaxOps /\ OpsFor(c) # {})
GCanStep(t) == TaskCanStepW(t, IF t \in Client THEN More(t) ELSE FALSE)
TasksNow == Actor \cup Client \cup DOMAIN tmr

GInit == EmptyInit /\ nf = 0 /\ dec = <<>> /\ prog = [c \in Client |-> <<>>]

Keep == UNCHANGED <<nf, dec, prog>>
G_Pick == /\ cur = None
          /\ \E t \in TasksNow : GCanStep(t) /\ (dec = <<>> => t = "main") /\ Pick(t) /\ dec' = Append(dec, t)
          /\ UNCHANGED <<nf, prog>>
\* the poll returns: the task cannot go on (or has yielded)
G_Block == /\ cur # None /\ (yl \/ ~GCanStep(cur))
           /\ cur' = None /\ yl' = FALSE /\ UNCHANGED sys /\ Keep
G_Main == /\ cur = "main" /\ ~yl /\ More("main")
          /\ RunIssue("main", MainProg[cli["main"].n + 1])
          /\ prog' = [prog EXCEPT !["main"] = Append(@, MainProg[cli["main"].n + 1])] /\ UNCHANGED <<nf, dec>>
G_Issue == /\ cur \in Workers /\ ~yl /\ cli[cur].stage = "idle" /\ cli[cur].n < MaxOps
           /\ \E o \in OpsFor(cur) : RunIssue(cur, o) /\ prog' = [prog EXCEPT ![cur] = Append(@, o)]
           /\ UNCHANGED <<nf, dec>>
G_Cont == cur \in Client /\ RunCont(cur) /\ Keep
G_Loop == cur \in Actor /\ RunLoop(cur) /\ Keep
G_Timer == cur \in DOMAIN tmr /\ RunTimer(cur) /\ Keep
G_Advance == /\ cur = None /\ dec # <<>> /\ Pending # {} /\ MinOf(Pending) <= Horizon
             /\ (IdleClock => \A t \in TasksNow : ~GCanStep(t))
             /\ Advance /\ dec' = Append(dec, "adv") /\ UNCHANGED <<cur, yl, nf, prog>>
G_Cancel == /\ cur = None /\ dec # <<>> /\ "cancel" \in Faults /\ nf < MaxFaults
            /\ \E a \in Actor : Cancel(a) /\ dec' = Append(dec, "cancel:" \o a)
            /\ nf' = nf + 1 /\ UNCHANGED <<cur, yl, prog>>

GNext == G_Pick \/ G_Block \/ G_Main \/ G_Issue \/ G_Cont \/ G_Loop \/ G_Timer \/ G_Advance \/ G_Cancel
GSpec == GInit /\ [][GNext]_gvars

GTerminal == /\ cur = None /\ dec # <<>>
             /\ \A t \in TasksNow : ~GCanStep(t)
             /\ (Pending = {} \/ MinOf(Pending) > Horizon)
Emit == GTerminal => PrintT(<<"BEHAVIOUR", ToJson([prog |-> prog, dec |-> dec])>>)

-----------------------------------------------------------------------------
(* set-up programs *)
SpawnOp(cf, nh) == [Op("spawn", "none", nh, <<>>, 0, "main") EXCEPT !.a = "a1", !.cfg = cf]
ConvOp(k, x, nh, to) == Op(k, x, nh, <<>>, 0, to)
\* a1 with one Addr per worker client; the root handle is dropped
MainAddr2(cf) == <<SpawnOp(cf, "h0"), ConvOp("clone", "h0", "h1", "c1"), ConvOp("clone", "h0", "h2", "c2"), Op("drop", "h0", "none", <<>>, 0, "main")>>
MainSC(cf) == <<SpawnOp(cf, "h0"), ConvOp("sender", "h0", "h1", "c1"), ConvOp("caller", "h0", "h2", "c2"), Op("drop", "h0", "none", <<>>, 0, "main")>>
MainAW(cf) == <<SpawnOp(cf, "h0"), ConvOp("clone", "h0", "h1", "c1"), ConvOp("downgrade", "h0", "h2", "c2"), Op("drop", "h0", "none", <<>>, 0, "main")>>
MainOwn(cf) == <<SpawnOp([cf EXCEPT !.owning = TRUE], "h0"), ConvOp("to_addr", "h0", "h2", "c2"), Op("give", "h0", "none", <<>>, 0, "c1")>>
GCfgB1 == Cfg(1, "restart", 0, FALSE, FALSE, <<<<>>>>, <<Y>>)
GCfgB0 == Cfg(0, "restart", 0, FALSE, FALSE, <<<<>>>>, <<>>)
GCfgUnb == Cfg(Unb, "restart", 0, FALSE, FALSE, <<<<Y>>>>, <<Y>>)
GCfgTmo == Cfg(1, "restart", 2, FALSE, FALSE, <<<<>>>>, <<>>)
GCfgTimer == Cfg(1, "restart", 0, FALSE, FALSE, <<<<Tm("interval", 2, "t1")>>>>, <<>>)
Main_Addr2_B1 == MainAddr2(GCfgB1)
Main_Addr2_B0 == MainAddr2(GCfgB0)
Main_SC_B1 == MainSC(GCfgB1)
Main_AW_Unb == MainAW(GCfgUnb)
Main_Own_B1 == MainOwn(GCfgB1)
Main_Addr2_Tmo == MainAddr2(GCfgTmo)
Main_Addr2_Timer == MainAddr2(GCfgTimer)
=============================================================================

------------------------------- MODULE Outcome -------------------------------
(***************************************************************************)
(* Outcome-level conformance (DESIGN 4.7): for a FIXED client program the  *)
(* specification, under free interleaving (what a multi-threaded runtime   *)
(* can do), yields a set of terminal outcomes - every operation's result   *)
(* and every actor's callback / handled-message sequence.  The outcome     *)
(* observed on a real runtime (tokio, async-std, smol; no scheduler shim)  *)
(* must be a member of that set.  TLC prints every terminal outcome;       *)
(* bin/check C18 does the membership test.                                 *)
(***************************************************************************)
EXTENDS Props, Json, IOUtils

\* the programs: a JSON array of records [id, prog: [client |-> sequence of operation records]]
Progs == JsonDeserialize(IOEnv.PROGS)

VARIABLES pidx,   \* which program this behaviour runs
          olog    \* per client: results of the operations completed so far
ovars == <<vars, pidx, olog>>

NoCfg == [cap |-> Unb, strat |-> "restart", stream |-> FALSE, tmo |-> -1, failto |-> FALSE, owning |-> FALSE,
          sscr |-> <<>>, pscr |-> <<>>, fscr |-> <<>>, ty |-> "0", items0 |-> 0, ended0 |-> FALSE, iscr |-> <<>>, tscr |-> <<>>]
OpOf(r) == [op |-> r.op, h |-> r.h, nh |-> r.nh, a |-> r.a, scr |-> r.scr, d |-> r.d, to |-> r.to,
            ty |-> r.ty, nh2 |-> r.nh2, h2 |-> r.h2,
            cfg |-> IF "cfg" \in DOMAIN r THEN r.cfg ELSE NoCfg]
ProgOf(c) == IF c \in DOMAIN Progs[pidx].prog THEN Progs[pidx].prog[c] ELSE <<>>

OInit == EmptyInit /\ pidx \in 1..Len(Progs) /\ olog = [c \in Client |-> <<>>]

Step ==
  \/ \E c \in Client : cli[c].n < Len(ProgOf(c)) /\ Issue(c, OpOf(ProgOf(c)[cli[c].n + 1]))
  \/ \E c \in Client : ClientCont(c)
  \/ \E a \in Actor : LoopStep(a)
  \/ \E i \in DOMAIN tmr : TimerStep(i)
  \/ Advance
ONext ==
  /\ Step
  /\ UNCHANGED <<cur, yl, pidx>>
  \* an operation completed in this step: it was pending and is idle now, or it began and ended at once
  /\ olog' = [c \in Client |->
       IF cli'[c].stage = "idle" /\ (cli[c].stage # "idle" \/ cli'[c].n > cli[c].n)
       THEN Append(olog[c], [res |-> cli'[c].last.res, pos |-> cli'[c].last.pos])
       ELSE olog[c]]
OSpec == OInit /\ [][ONext]_ovars

Terminal ==
  /\ \A a \in Actor : ~LoopCanStep(a)
  /\ \A c \in Client : IF cli[c].stage = "idle" THEN cli[c].n = Len(ProgOf(c)) ELSE ~ClientContEnabled(c)
  /\ \A i \in DOMAIN tmr : ~TimerCanStep(i)
  /\ Pending = {}
CbNames(a) == [i \in 1..Len(hst.cb[a]) |-> hst.cb[a][i][1]]
Handled(a) == [i \in 1..Len(hst.hb[a]) |-> hst.hb[a][i].m]
Projection == [id |-> Progs[pidx].id,
               results |-> olog,
               hung |-> {c \in Client : cli[c].stage # "idle"},
               actors |-> [a \in Used |-> [inst |-> act[a].inst, cb |-> CbNames(a), handled |-> Handled(a), pc |-> act[a].pc]]]
Emit == Terminal => PrintT(<<"OUTCOME", ToJson(Projection)>>)
=============================================================================

-------------------------------- MODULE Blame --------------------------------
(* guard id -> the properties whose statement that guard encodes.            *)
(* Kept minimal on purpose: a guard names the properties it *states*, not    *)
(* everything that depends on it.  Guards not listed blame nothing           *)
(* (structural / harness-infrastructure conditions).                         *)
EXTENDS TLC
Blame ==
     "hb.phase.mailbox" :> {"C01", "C03", "C04"}
  @@ "hb.fifo.mailbox"  :> {"C01"}
  @@ "hb.phase.restart.ctx" :> {"C07", "C15"} @@ "hb.phase.restart.mailbox" :> {"C07"}
  @@ "hb.phase.stop.ctx" :> {"C04", "C15"} @@ "hb.phase.stop.mailbox" :> {"C04"}
  @@ "hb.phase.timer"   :> {"C10", "C01"}
  @@ "hb.fifo.timer"    :> {"C10", "C01"}
  @@ "hb.phase.parent"  :> {"C16"}
  @@ "hb.fifo.parent"   :> {"C16"}
  @@ "hb.phase.stream"  :> {"C13"}
  @@ "hb.fifo.stream"   :> {"C13"}
  @@ "hb.phase.broker"  :> {"C09"} @@ "hb.phase.broker.restarted" :> {"C09", "C07", "C15"}
  @@ "hb.fifo.broker"   :> {"C09"}
  @@ "hb.inst"    :> {"C07"}
  @@ "he.phase"   :> {"C01"}
  @@ "he.msg"     :> {"C01"}
  @@ "he.pos"     :> {"C01"}
  @@ "ha.msg"     :> {"C11"}
  @@ "ha.timeout" :> {"C11"} @@ "ha.timeout.stream" :> {"C13", "C11"}
  @@ "ha.libpanic.broadcast_unit" :> {"C16"} @@ "ha.libpanic.broadcast_bc" :> {"C16"} @@ "ha.libpanic.broadcast_bc2" :> {"C16"}
  @@ "ha.libpanic.add_child" :> {"C16"} @@ "ha.libpanic.register_bc" :> {"C16"} @@ "ha.libpanic.register_bc2" :> {"C16"}
  @@ "ha.libpanic.subscribe" :> {"C09"} @@ "ha.libpanic.publish" :> {"C09"}
  @@ "ha.libpanic.interval" :> {"C10"} @@ "ha.libpanic.interval_with" :> {"C10"} @@ "ha.libpanic.delayed_send" :> {"C10"} @@ "ha.libpanic.delayed_exec" :> {"C10"}
  @@ "ha.libpanic.ctx_stop" :> {"C04", "C15"} @@ "ha.libpanic.ctx_restart" :> {"C07", "C15"}
  @@ "ha.libpanic.call_peer" :> {"C02"} @@ "ha.libpanic.send_peer" :> {"C02"}
  @@ "ha.libpanic.ctx_weak_address" :> {"C15"} @@ "ha.libpanic.ctx_weak_sender" :> {"C15"} @@ "ha.libpanic.ctx_weak_caller" :> {"C15"}
  @@ "ha.libpanic.yield" :> {"C11"} @@ "ha.libpanic.sleep" :> {"C11"}
  @@ "adv.vt.streamtmo" :> {"C13", "C11"} @@ "adv.pending.streamtmo" :> {"C13", "C11"}
  @@ "adv.vt.flushing" :> {"C12", "C10", "C11"} @@ "adv.pending.flushing" :> {"C12", "C10", "C11"}
  @@ "blk.timer.alive" :> {"C10", "C15"} @@ "exit.timer.alive.aftertimeout" :> {"C10", "C15", "C11"}
  @@ "hb.phase.timer.closed" :> {"C10", "C05", "C03"}
  @@ "ha.dead"    :> {"C11"}
  @@ "blk.loop.handling" :> {"C11", "C02"}
  @@ "eff.ctx"    :> {"C15"}
  @@ "cb.sb"      :> {"C03"}
  @@ "cb.se"      :> {"C03"}
  @@ "cb.pb"      :> {"C03", "C05"}
  @@ "cb.pe"      :> {"C03"}
  @@ "cb.pb.failed" :> {"C02", "C03", "C04", "C06"} @@ "cb.pb.failed.restarted" :> {"C02", "C03", "C04", "C06", "C07"}
  @@ "cb.pb.failed.owning" :> {"C02", "C03", "C04", "C06", "C17"} @@ "cb.pb.failed.restarted.owning" :> {"C02", "C03", "C04", "C06", "C07", "C17"}
  @@ "hb.phase.failed.startErr.restarted" :> {"C06", "C03", "C07"}
  @@ "oe.res.failed.startErr.restarted" :> {"C06", "C02", "C03", "C07"} @@ "oe.res.failed.startErr.await.restarted" :> {"C06", "C02", "C03", "C04", "C07"}
  @@ "exit.loop.aftertimeout" :> {"C11", "C03"} @@ "exit.loop.held" :> {"C03", "C05", "C15"} @@ "exit.loop.restart" :> {"C07", "C03"} @@ "exit.loop.broker" :> {"C09"}
  @@ "oe.res.stopped.failed" :> {"C14", "C06"} @@ "oe.res.running.failed" :> {"C14", "C06"}
  @@ "oe.res.try_from_registry.failed" :> {"C08", "C14", "C06"} @@ "oe.res.already_running.failed" :> {"C08", "C14", "C06"}
  @@ "oe.done.failed" :> {"C08", "C14", "C06"}
  @@ "cb.fb"      :> {"C03", "C13"}
  @@ "cb.fe"      :> {"C03", "C13"}
  @@ "cb.pb.stream" :> {"C03", "C13"}
  @@ "cb.name"    :> {"C03"}
  @@ "cb.inst"    :> {"C07"} @@ "cb.inst.owning" :> {"C07", "C17"}
  @@ "cb.inc"     :> {"C07"}
  @@ "dn.recreate" :> {"C07"}
  @@ "exit.loop"  :> {"C03"}
  @@ "exit.loop.closed" :> {"C03", "C05"}
  @@ "exit.loop.callback" :> {"C03", "C04"} @@ "exit.loop.callback.owning" :> {"C03", "C04", "C17"}
  @@ "adv.vt.stopping" :> {"C04"} @@ "adv.pending.stopping" :> {"C04"} @@ "adv.vt.stopping.owning" :> {"C04", "C17"} @@ "adv.pending.stopping.owning" :> {"C04", "C17"}
  @@ "exit.loop.callback.stream" :> {"C03", "C13", "C17"}
  @@ "cb.pb.undrained.mailbox" :> {"C04", "C05", "C03"} @@ "cb.pb.undrained.ctx" :> {"C04", "C03"} @@ "cb.pb.undrained.parent" :> {"C16"}
  @@ "cb.pb.undrained.mailbox.fail" :> {"C04", "C05", "C03", "C06"} @@ "cb.pb.undrained.parent.fail" :> {"C16", "C06"}
  @@ "cb.pb.undrained.ctx.fail" :> {"C04", "C03"} @@ "cb.pb.undrained.timer.fail" :> {"C10", "C03"} @@ "cb.pb.undrained.broker.fail" :> {"C09", "C06"}
  @@ "cb.pb.undrained.stream.fail" :> {"C13"}
  @@ "cb.pb.undrained.timer" :> {"C10", "C03"} @@ "cb.pb.undrained.broker" :> {"C09"} @@ "cb.pb.undrained.stream" :> {"C13"}
  @@ "hb.phase.failed.timeout" :> {"C11", "C06"} @@ "hb.phase.failed.panic" :> {"C06", "C03"} @@ "hb.phase.failed.startErr" :> {"C06", "C03"}
  @@ "hb.phase.failed.cancel" :> {"C06"}
  @@ "oe.res.failed.timeout" :> {"C11", "C06", "C02"} @@ "oe.res.failed.panic" :> {"C06", "C02"} @@ "oe.res.failed.startErr" :> {"C06", "C02", "C03"}
  @@ "oe.res.failed.cancel" :> {"C06", "C02"}
  \* (the result of awaiting the address of an actor that failed: C04's "Ok exactly when termination was graceful")
  @@ "oe.res.failed.timeout.await" :> {"C11", "C06", "C02", "C04"} @@ "oe.res.failed.panic.await" :> {"C06", "C02", "C04"}
  @@ "oe.res.failed.startErr.await" :> {"C06", "C02", "C03", "C04"} @@ "oe.res.failed.cancel.await" :> {"C06", "C02", "C04"}
  @@ "tf.state.failed" :> {"C10", "C06"} @@ "adv.pending.failed" :> {"C10", "C06"}
  @@ "exit.how"   :> {"C06"}
  @@ "exit.client.await" :> {"C04", "C02"} @@ "exit.client.await_ref" :> {"C04", "C02"} @@ "exit.client.halt" :> {"C04", "C02"} @@ "exit.client.try_halt" :> {"C04", "C02"}
  @@ "exit.client.join" :> {"C17"} @@ "exit.client.call" :> {"C02"} @@ "exit.client.send" :> {"C02"}
  \* (a client task that PANICS inside a library call: blamed on the property that speaks about that call)
  @@ "exit.client.ping" :> {"C02"} @@ "exit.client.stop" :> {"C04"} @@ "exit.client.try_stop" :> {"C04"} @@ "exit.client.restart" :> {"C07"}
  @@ "exit.client.consume" :> {"C17"} @@ "exit.client.consume_sync" :> {"C17"} @@ "exit.client.detach" :> {"C17"} @@ "exit.client.to_addr" :> {"C17", "C15"}
  @@ "exit.client.upgrade" :> {"C15", "C05"} @@ "exit.client.downgrade" :> {"C15"} @@ "exit.client.clone" :> {"C15"} @@ "exit.client.sender" :> {"C15"}
  @@ "exit.client.caller" :> {"C15"} @@ "exit.client.weak_sender" :> {"C15"} @@ "exit.client.weak_caller" :> {"C15"} @@ "exit.client.force_send" :> {"C15", "C05"}
  @@ "exit.client.stopped" :> {"C14"} @@ "exit.client.running" :> {"C14"} @@ "exit.client.drop" :> {"C05"}
  @@ "exit.client.from_registry" :> {"C08"} @@ "exit.client.setup" :> {"C08"} @@ "exit.client.register" :> {"C08"} @@ "exit.client.replace" :> {"C08"}
  @@ "exit.client.unregister" :> {"C08"} @@ "exit.client.try_from_registry" :> {"C08", "C14"} @@ "exit.client.already_running" :> {"C08", "C14"}
  @@ "exit.client.publish" :> {"C09"} @@ "exit.client.try_publish" :> {"C09"} @@ "exit.client.bpublish" :> {"C09"} @@ "exit.client.bsubscribe" :> {"C09"}
  @@ "exit.client.bunsubscribe" :> {"C09"} @@ "exit.client.spawn" :> {"C03"}
  @@ "oe.actor.clone" :> {"C15"} @@ "oe.actor.downgrade" :> {"C15"} @@ "oe.actor.upgrade" :> {"C15"}
  @@ "oe.actor.sender" :> {"C15"} @@ "oe.actor.caller" :> {"C15"} @@ "oe.actor.weak_sender" :> {"C15"}
  @@ "oe.actor.weak_caller" :> {"C15"} @@ "oe.actor.to_addr" :> {"C15", "C17"} @@ "oe.actor.detach" :> {"C17"}
  @@ "oe.actor.setup" :> {"C08", "C14"} @@ "oe.actor.from_registry" :> {"C08"} @@ "oe.actor.register" :> {"C08"} @@ "oe.actor.replace" :> {"C08"}
  @@ "oe.actor.unregister" :> {"C08"} @@ "oe.actor.try_from_registry" :> {"C08"} @@ "oe.actor.already_running" :> {"C08"}
  @@ "oe.res.from_registry" :> {"C08"} @@ "oe.res.setup" :> {"C08"} @@ "oe.res.register" :> {"C08", "C14"} @@ "oe.res.replace" :> {"C08"}
  @@ "oe.res.unregister" :> {"C08"} @@ "oe.res.try_from_registry" :> {"C08", "C14"} @@ "oe.res.already_running" :> {"C08"}
  @@ "oe.ready.from_registry" :> {"C08"} @@ "oe.ready.setup" :> {"C08"} @@ "oe.ready.register" :> {"C08"}
  @@ "oe.ready.replace" :> {"C08"} @@ "oe.ready.unregister" :> {"C08"} @@ "oe.ready.already_running" :> {"C08"}
  @@ "oe.done"    :> {"C08", "C14"}
  @@ "oe.res.register.entryfailed" :> {"C08", "C06", "C14"} @@ "oe.res.from_registry.entryfailed" :> {"C08", "C06"} @@ "oe.res.setup.entryfailed" :> {"C08", "C06"}
  @@ "oe.res.replace.entryfailed" :> {"C08", "C06"} @@ "oe.res.unregister.entryfailed" :> {"C08", "C06"}
  @@ "oe.res.already_running.entryfailed" :> {"C08", "C06", "C14"} @@ "oe.res.try_from_registry.entryfailed" :> {"C08", "C06", "C14"}
  @@ "dn.miss"    :> {"C08", "C14"} @@ "dn.miss.typefailed" :> {"C08", "C14", "C06"} @@ "dn.type" :> {"C08"} @@ "dn.lock" :> {"C08"}
  @@ "blk.reglock" :> {"C08"} @@ "blk.regping" :> {"C08"}
  @@ "oe.res.send" :> {"C12", "C02"}
  @@ "oe.ready.send" :> {"C12"}
  @@ "oe.res.force_send" :> {"C05", "C15"}
  @@ "oe.res.call" :> {"C02"}
  @@ "oe.val.call" :> {"C02", "C01"}
  @@ "oe.ready.call" :> {"C02"}
  @@ "oe.res.ping" :> {"C02", "C01"}
  @@ "oe.ready.ping" :> {"C02", "C01"}
  @@ "oe.res.stop" :> {"C04"}
  @@ "oe.res.try_stop" :> {"C04", "C05"}
  @@ "oe.res.restart" :> {"C07"}
  @@ "oe.res.halt" :> {"C04"}
  @@ "oe.ready.halt" :> {"C04"}
  @@ "oe.res.try_halt" :> {"C04"}
  @@ "oe.ready.try_halt" :> {"C04"}
  @@ "oe.res.await" :> {"C04"}
  @@ "oe.ready.await" :> {"C04"}
  @@ "oe.res.await_ref" :> {"C04"}
  @@ "oe.ready.await_ref" :> {"C04"}
  @@ "oe.res.join" :> {"C17"}
  @@ "oe.val.join" :> {"C17", "C01"}
  @@ "oe.ready.join" :> {"C17"}
  @@ "oe.res.consume" :> {"C17"}
  @@ "oe.val.consume" :> {"C17"}
  @@ "oe.ready.consume" :> {"C17"}
  @@ "oe.res.consume_sync" :> {"C17"}
  @@ "oe.val.consume_sync" :> {"C17"}
  @@ "oe.ready.consume_sync" :> {"C17"}
  @@ "oe.res.stopped" :> {"C14"}
  @@ "oe.res.running" :> {"C14"}
  @@ "oe.res.upgrade" :> {"C05", "C15"}
  @@ "blk.flush"  :> {"C12", "C02"} @@ "blk.send.unbounded" :> {"C12"}
  @@ "blk.resp"   :> {"C02"}
  @@ "blk.await"  :> {"C04", "C02"}
  @@ "blk.join"   :> {"C17", "C02"}
  @@ "eff.peer.res" :> {"C02", "C06"}
  @@ "eff.ctxweak" :> {"C05", "C15"}
  @@ "oe.res.try_publish" :> {"C09"} @@ "oe.actor.try_publish" :> {"C09"}
  @@ "eff.nested" :> {"C09"} @@ "eff.nested.res" :> {"C09"}
  @@ "oe.res.publish" :> {"C09"} @@ "oe.res.bpublish" :> {"C09"} @@ "oe.res.bsubscribe" :> {"C09"} @@ "oe.res.bunsubscribe" :> {"C09"}
  @@ "oe.ready.publish" :> {"C09"} @@ "oe.actor.publish" :> {"C09"}
  @@ "un.flush" :> {"C12", "C02"} @@ "un.resp" :> {"C02"} @@ "un.await" :> {"C04", "C02"} @@ "un.join" :> {"C17", "C02"}
  @@ "un.loop.closed" :> {"C05", "C03"} @@ "un.loop.closed.stream" :> {"C05", "C13", "C03"} @@ "un.loop.stream" :> {"C13"}
  @@ "un.loop.deq.mailbox" :> {"C02", "C05"} @@ "un.loop.deq.timer" :> {"C10"} @@ "un.loop.deq.parent" :> {"C16"} @@ "un.loop.deq.broker" :> {"C09"} @@ "un.loop.deq.ctx.stop" :> {"C04", "C15"} @@ "un.loop.deq.ctx.restart" :> {"C07", "C15"}
  @@ "un.loop" :> {"C02"} @@ "un.timer" :> {"C10"} @@ "un.adv" :> {"C10", "C11"}
  @@ "oe.cancel.send" :> {"C12"} @@ "oe.cancel.call" :> {"C02"} @@ "oe.cancel.ping" :> {"C02"} @@ "oe.cancel.join" :> {"C17"}
  @@ "oe.cancel.await_ref" :> {"C04"} @@ "oe.cancel.try_halt" :> {"C04"}
  \* (the actor an operation acted on is not the one its handle addresses)
  @@ "oe.actor.send" :> {"C15"} @@ "oe.actor.call" :> {"C15"} @@ "oe.actor.ping" :> {"C15"} @@ "oe.actor.stop" :> {"C15"} @@ "oe.actor.restart" :> {"C15"} @@ "oe.actor.try_stop" :> {"C15"} @@ "oe.actor.try_halt" :> {"C15"} @@ "oe.actor.halt" :> {"C15"} @@ "oe.actor.await" :> {"C15"} @@ "oe.actor.await_ref" :> {"C15"} @@ "oe.actor.stopped" :> {"C15"} @@ "oe.actor.running" :> {"C15"} @@ "oe.actor.join" :> {"C15"} @@ "oe.actor.consume" :> {"C15"} @@ "oe.actor.consume_sync" :> {"C15"} @@ "oe.actor.drop" :> {"C15"} @@ "oe.actor.force_send" :> {"C15"}
  @@ "oe.cancel.halt" :> {"C04"} @@ "oe.cancel.await" :> {"C04"} @@ "oe.cancel.consume" :> {"C17"}
  @@ "blk.timer"  :> {"C10"}
  @@ "exit.timer" :> {"C10"}
  @@ "exit.timer.afterrestart" :> {"C10", "C07", "C15"}
  @@ "exit.timer.alive" :> {"C10", "C15"}
  @@ "tf.state"   :> {"C10", "C07"}
  @@ "tf.due"     :> {"C10"}
  @@ "tf.k"       :> {"C10"}
  @@ "adv.vt"     :> {"C10", "C11"}
  @@ "adv.pending" :> {"C10", "C11"}
  @@ "blk.loop.closed.subscribed" :> {"C05", "C09", "C03"} @@ "q.loops.closed.subscribed" :> {"C05", "C09", "C03"} @@ "un.loop.closed.subscribed" :> {"C05", "C09", "C03"}
  @@ "blk.loop.closed.timers" :> {"C05", "C10", "C03"} @@ "q.loops.closed.timers" :> {"C05", "C10", "C03"} @@ "un.loop.closed.timers" :> {"C05", "C10", "C03"}
  @@ "blk.loop.closed" :> {"C05", "C03"} @@ "blk.loop.closed.stream" :> {"C05", "C13", "C03"} @@ "blk.loop.stream" :> {"C13"}
  @@ "blk.loop.deq.mailbox" :> {"C02", "C05"} @@ "blk.loop.deq.ctx.stop" :> {"C04", "C15"} @@ "blk.loop.deq.ctx.restart" :> {"C07", "C15"} @@ "blk.loop.deq.timer" :> {"C10"}
  @@ "blk.loop.deq.parent" :> {"C16"} @@ "blk.loop.deq.broker" :> {"C09"}
  @@ "q.loops.closed" :> {"C05", "C03"} @@ "q.loops.closed.stream" :> {"C05", "C13", "C03"} @@ "q.loops.stream" :> {"C13"}
  @@ "q.loops.deq.mailbox" :> {"C02", "C05"} @@ "q.loops.deq.ctx.stop" :> {"C04", "C15"} @@ "q.loops.deq.ctx.restart" :> {"C07", "C15"} @@ "q.loops.deq.timer" :> {"C10"}
  @@ "q.loops.deq.parent" :> {"C16"} @@ "q.loops.deq.broker" :> {"C09"}
  @@ "q.loops.deq.parent.sibfail" :> {"C16", "C06"} @@ "blk.loop.deq.parent.sibfail" :> {"C16", "C06"} @@ "un.loop.deq.parent.sibfail" :> {"C16", "C06"}
  @@ "cb.pb.child" :> {"C16", "C05"}
  @@ "q.unresolved" :> {"C02"}
  @@ "q.alive"    :> {"C05", "C10"}
  @@ "q.clients"  :> {"C02"}
  @@ "q.loops"    :> {"C05", "C02"}
=============================================================================
